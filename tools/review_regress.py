#!/usr/bin/env python3
"""Runs the reviewers' property-preserving patches (refactors/review/*.diff) against the checks that used to raise a
false alarm on them. Expected: rc 0 everywhere except the entries marked KEEP (a reading of the property this work
stands by, see DESIGN.md section 11). Usage: review_regress.py [name-prefix] ; scratch copies only."""
import subprocess, sys, os, json, re, concurrent.futures as cf
V = os.path.dirname(os.path.dirname(os.path.abspath(__file__)))
PLAN = {
 'state_stored': ('C02,C03,C04,C05,C06', 'KEEP'),
 'eager_release': ('C01,C06,C08', ''), 'zero_mint': ('C03', ''), 'zero_conv': ('C03', ''),
 'small_page': ('C01,C03,C06,C07,C08,C09', ''), 'incl_start': ('C06,C07,C08', ''), 'fee_on_payment': ('C03,C05', ''), 'mirror': ('C06', ''),
 'c08_checkslashing_closes': ('C08', ''), 'c08_epoch_plus1': ('C08', ''), 'c08_history_page_cap': ('C08,C09', ''), 'c08_release_in_unbond': ('C08,C01,C06', ''),
 'c08_round_sum': ('C08', ''), 'c08_time_margin': ('C08', ''), 'c09_claim_quote': ('C09', ''), 'c10_receive_refactor': ('C10', ''), 'c10_token_noop': ('C10', ''),
 'c11_migrate_min_page': ('C11', ''), 'c11_migrate_owner_only': ('C11', ''), 'c11_omitted_unchanged': ('C11', ''), 'c11_pause_log': ('C11', ''),
 'c12_deleg_empty_zero': ('C12', ''), 'c12_hub_sublist': ('C12', 'KEEP'), 'c12_slow_passes': ('C12', ''), 'c12_three_passes': ('C12', ''), 'c12_undeleg_empty_zero': ('C12', ''),
 'c13_manual_partial': ('C13', ''), 'c13_partial_redelegate': ('C13', ''), 'c13_query_truncate': ('C13', ''), 'c13_soft_delete': ('C13', ''),
 'c14_accrued_preview': ('C14', 'KEEP'), 'c14_holder_query_err': ('C14,C13,C08', ''), 'c14_min_claim': ('C14', ''),
 'c15_micropending': ('C15', ''), 'c17_checkslashing_before_rebond': ('C17,C19', ''), 'c17_no_update_without_share': ('C17,C19', ''),
 'c18_expired_not_revived': ('C18', ''), 'c18_pagecap': ('C18,C16', ''), 'c19_six_instalments': ('C19,C17', ''), 'c19_skip_empty_withdraw': ('C19', ''),
 'c20_clamp_fee_instantiate': ('C20', ''), 'c20_dedupe_swapdenom': ('C20', ''), 'c20_paused_some_false': ('C20,C11', ''), 'c20_reject_threshold': ('C20', ''),
}
# second review round (refactors/review2): GAP = the mini-chain does not model what the patch uses (sub-message replies);
# the honest verdict is "inconclusive" (exit 2), never a violation
PLAN2 = {
 'r2_any_op_closes_batch': ('C03,C04,C06', ''), 'r2_lazy_checkslashing': ('C02,C06', 'KEEP'), 'r2_unbond_close_first': ('C03,C07,C05', ''),
 'r2_safety3': ('C01,C06', ''), 'r2_waitlist_tombstone': ('C07', ''), 'r2_skip_zero_claim': ('C07', ''), 'r2_history_newest_first': ('C07,C08', ''),
 'r2_forged_receive_noop': ('C07', ''), 'r2_half_fee': ('C05', ''), 'r2_history_limit_reject': ('C07,C01', ''), 'r2_raw_supply_query': ('C03', 'NOT-PRESERVING'),
 'r2_reply_on_error': ('C01', 'GAP'), 'r2_delegate_proxy': ('C10,C01', ''),
 'r2_history_limit_rejected': ('C08,C13,C14', ''), 'r2_chain_validator_query': ('C13', ''), 'r2_c08_first_batch_no_wait': ('C08', ''),
 'r2_c08_withdraw_rate_estimate': ('C08', ''), 'r2_c09_quote_remembered': ('C09', ''), 'r2_c09_one_batch_per_withdrawal': ('C09', ''),
 'r2_c10_registry_hub_fixed': ('C10', ''), 'r2_c11_unpause_syncs_books': ('C11', 'KEEP'), 'r2_c12_plan_without_trailing_zeros': ('C12', ''),
 'r2_c12_empty_list_aborts': ('C12', ''), 'r2_c14_fraction_six_decimals': ('C14', 'KEEP'), 'r2_c13_removal_fails_when_locked': ('C13', ''),
 'r2_c14_update_without_holders_rejected': ('C14', ''), 'r2_c10_tokens_registered_together': ('C10', ''), 'r2_withdraw_payment_submessage': ('C08,C09', 'GAP'),
 'r2_c14_claims_to_self_only': ('C14', ''), 'r2_c14_no_plain_transfer_to_hub': ('C14', 'ANTECEDENT'),
 'r2_reply_on_success': ('C17,C19', 'GAP'), 'r2_history_limit_refused': ('C16,C18,C19', ''), 'r2_c15_autoindex': ('C15', 'KEEP'),
 'r2_c17_swap_rejects_empty': ('C17', ''), 'r2_c17_extra_to_staking_coin': ('C17', ''), 'r2_c19_keeper_ceil': ('C19', ''),
 'r2_c19_release_in_ugi': ('C19', ''), 'r2_c19_ugi_checks_slashing_first': ('C19', ''), 'r2_c20_threshold_default': ('C20', ''),
 'r2_c20_empty_update_public_noop': ('C20', ''), 'r2_c16_reject_self_transfer': ('C16', ''), 'r2_c19_removal_without_update': ('C19', ''),
 'r2_bsei_raw_query': ('C16', ''), 'r2_hub_state_renamed': ('C01,C07', ''),
}
DIRS = {n: 'review' for n in PLAN}
DIRS.update({n: 'review2' for n in PLAN2})
PLAN.update(PLAN2)
pref = sys.argv[1] if len(sys.argv) > 1 else ''
def run(name):
    checks, keep = PLAN[name]
    p = subprocess.run(['python3', f'{V}/tools/check_seed.py', 'rv_' + name, f'{V}/refactors/{DIRS[name]}/{name}.diff', '--checks', checks], stdout=subprocess.PIPE, stderr=subprocess.STDOUT, text=True)
    m = re.search(r'SUMMARY \S+ (\{.*\})', p.stdout)
    res = json.loads(m.group(1)) if m else {'error': p.stdout[-300:]}
    lines = {c: (re.search(r'^%s (\{.*\})' % c, p.stdout, re.M).group(1)[:260] if re.search(r'^%s (\{.*\})' % c, p.stdout, re.M) else '') for c in checks.split(',')}
    return name, keep, res, lines
names = [n for n in PLAN if n.startswith(pref)]
with cf.ThreadPoolExecutor(max_workers=4) as ex:
    for name, keep, res, lines in ex.map(run, names):
        bad = {c: r for c, r in res.items() if r != 0}
        print(name, keep or '-', json.dumps(res), flush=True)
        for c in bad:
            print('    ', c, lines.get(c, ''), flush=True)
