#!/usr/bin/env python3
"""Runs the reviewers' property-preserving patches (refactors/review/*.diff) against the checks that used to raise a
false alarm on them. Expected: rc 0 everywhere except the entries marked KEEP (a reading of the property this work
stands by, see DESIGN.md section 11). Usage: review_regress.py [name-prefix] ; scratch copies only."""
import subprocess, sys, os, json, re, concurrent.futures as cf
V = os.path.dirname(os.path.dirname(os.path.abspath(__file__)))
PLAN = {
 'state_stored': ('C02,C03,C04,C05,C06', 'KEEP'),
 'eager_release': ('C01,C06,C08', ''), 'zero_mint': ('C03', ''), 'zero_conv': ('C03', ''),
 'small_page': ('C01,C03,C06,C07,C08,C09', ''), 'incl_start': ('C06,C07,C08', ''), 'fee_on_payment': ('C03,C05', ''), 'mirror': ('C06', ''),
 'c08_checkslashing_closes': ('C08', ''), 'c08_epoch_plus1': ('C08', ''), 'c08_history_page_cap': ('C08,C09', ''), 'c08_release_in_unbond': ('C08,C01,C06', ''),
 'c08_round_sum': ('C08', ''), 'c08_time_margin': ('C08', ''), 'c09_claim_quote': ('C09', ''), 'c10_receive_refactor': ('C10', ''), 'c10_token_noop': ('C10', ''),
 'c11_migrate_min_page': ('C11', ''), 'c11_migrate_owner_only': ('C11', ''), 'c11_omitted_unchanged': ('C11', ''), 'c11_pause_log': ('C11', ''),
 'c12_deleg_empty_zero': ('C12', ''), 'c12_hub_sublist': ('C12', 'KEEP'), 'c12_slow_passes': ('C12', ''), 'c12_three_passes': ('C12', ''), 'c12_undeleg_empty_zero': ('C12', ''),
 'c13_manual_partial': ('C13', ''), 'c13_partial_redelegate': ('C13', ''), 'c13_query_truncate': ('C13', ''), 'c13_soft_delete': ('C13', ''),
 'c14_accrued_preview': ('C14', 'KEEP'), 'c14_holder_query_err': ('C14,C13,C08', ''), 'c14_min_claim': ('C14', ''),
 'c15_micropending': ('C15', ''), 'c17_checkslashing_before_rebond': ('C17,C19', ''), 'c17_no_update_without_share': ('C17,C19', ''),
 'c18_expired_not_revived': ('C18', ''), 'c18_pagecap': ('C18,C16', ''), 'c19_six_instalments': ('C19,C17', ''), 'c19_skip_empty_withdraw': ('C19', ''),
 'c20_clamp_fee_instantiate': ('C20', ''), 'c20_dedupe_swapdenom': ('C20', ''), 'c20_paused_some_false': ('C20,C11', ''), 'c20_reject_threshold': ('C20', ''),
}
pref = sys.argv[1] if len(sys.argv) > 1 else ''
def run(name):
    checks, keep = PLAN[name]
    p = subprocess.run(['python3', f'{V}/tools/check_seed.py', 'rv_' + name, f'{V}/refactors/review/{name}.diff', '--checks', checks], stdout=subprocess.PIPE, stderr=subprocess.STDOUT, text=True)
    m = re.search(r'SUMMARY \S+ (\{.*\})', p.stdout)
    res = json.loads(m.group(1)) if m else {'error': p.stdout[-300:]}
    lines = {c: (re.search(r'^%s (\{.*\})' % c, p.stdout, re.M).group(1)[:260] if re.search(r'^%s (\{.*\})' % c, p.stdout, re.M) else '') for c in checks.split(',')}
    return name, keep, res, lines
names = [n for n in PLAN if n.startswith(pref)]
with cf.ThreadPoolExecutor(max_workers=4) as ex:
    for name, keep, res, lines in ex.map(run, names):
        bad = {c: r for c, r in res.items() if r != 0}
        print(name, keep or '-', json.dumps(res), flush=True)
        for c in bad:
            print('    ', c, lines.get(c, ''), flush=True)
