#!/bin/sh
# Runs each seeded change the prescribed way: apply it to /repo, run the property's quick check, undo it straight away.
cd /verif || exit 2
for d in seeded/C*/; do
  name=$(basename $d)
  id=$(echo $name | cut -c1-3)
  git -C /repo apply /verif/$d/patch.diff || { echo "$name APPLY-FAILED"; continue; }
  out=$(VERIF_SEED=${1:-1} ./check $id quick 2>&1); rc=$?
  git -C /repo checkout -- .
  echo "$name check=$id rc=$rc $(echo "$out" | grep -E 'clause=' | head -1 | cut -c1-160)"
  echo "$out" | grep -E 'clauses fired:' | head -1 | sed "s/^/    $name /"
done
git -C /repo status --short | head -3
