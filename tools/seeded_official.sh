#!/bin/sh
# Runs each seeded change the prescribed way: apply it to /repo, run the property's quick check, undo it straight away.
cd /verif || exit 2
for d in seeded/C*/; do
  id=$(basename $d)
  git -C /repo apply /verif/$d/patch.diff || { echo "$id APPLY-FAILED"; continue; }
  out=$(VERIF_SEED=${1:-1} ./check $id quick 2>&1); rc=$?
  git -C /repo checkout -- .
  echo "$id rc=$rc $(echo "$out" | grep -E 'clause=' | head -1 | cut -c1-160)"
done
git -C /repo status --short | head -3
