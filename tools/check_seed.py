#!/usr/bin/env python3
"""check_seed.py <ID> <patch.diff> [--checks C01,C02|all] [--tier quick] [--seed N]
Runs registered checks against a seeded change on a scratch copy of /repo + harness (nothing in /repo or /verif changes)."""
import os, sys, subprocess, shutil, json, re, time
VERIF = os.path.dirname(os.path.dirname(os.path.abspath(__file__)))
ID, patch = sys.argv[1], os.path.abspath(sys.argv[2])
checks = [ID]; tier = 'quick'; seed = '1'
a = sys.argv[3:]
for i, x in enumerate(a):
    if x == '--checks': checks = ['C%02d' % k for k in range(1, 21)] if a[i+1] == 'all' else a[i+1].split(',')
    if x == '--tier': tier = a[i+1]
    if x == '--seed': seed = a[i+1]
S = '/tmp/krp_cs_' + ID + '_' + str(os.getpid())
env = dict(os.environ, CARGO_NET_OFFLINE='true')
def sh(cmd, cwd=None, extra=None):
    e = dict(env); e.update(extra or {})
    p = subprocess.run(cmd, shell=True, cwd=cwd, env=e, stdout=subprocess.PIPE, stderr=subprocess.STDOUT, text=True)
    return p.returncode, p.stdout
os.makedirs(S + '/out', exist_ok=True)
# the committed tree, not the working tree: another tool (seeded_official.sh) may have a patch applied to /repo right now
os.makedirs(S + '/repo', exist_ok=True)
rc0, _ = sh(f'git -C /repo archive HEAD | tar -x -C {S}/repo')
if rc0 != 0:
    sh(f'rsync -a --exclude target --exclude .git /repo/ {S}/repo/')
sh(f'rsync -a --exclude target {VERIF}/harness/ {S}/harness/')
sh(f"sed -i 's#/repo/#{S}/repo/#g' {S}/harness/Cargo.toml")
shutil.copy(VERIF + '/known_findings.json', S + '/out/known_findings.json')
rc, out = sh(f'patch -p1 < {patch}', cwd=S + '/repo')
if rc != 0:
    print('patch failed', out); sys.exit(2)
# share the main harness target dir as a read-only seed for faster builds: copy once
if os.path.isdir(VERIF + '/harness/target/release'):
    sh(f'mkdir -p {S}/ht && cp -r {VERIF}/harness/target/release {S}/ht/')
rc, out = sh('cargo build --release --offline 2>&1', cwd=S + '/harness', extra={'CARGO_TARGET_DIR': S + '/ht', 'RUSTFLAGS': '--cfg krp_verif'})
if rc != 0:
    print('harness build failed', out[-2000:]); shutil.rmtree(S, ignore_errors=True); sys.exit(2)
res = {}
for c in checks:
    t0 = time.time()
    rc, out = sh(f'{S}/ht/release/krpmon {c} --tier {tier} --seed {seed}', cwd=S + '/out', extra={'KRPMON_ROOT': S + '/out'})
    m = re.search(r'clause=.*', out)
    res[c] = dict(rc=rc, secs=round(time.time() - t0, 1), line=(m.group(0)[:400] if m else out.strip().split('\n')[-1][:300]))
    print(c, json.dumps(res[c]), flush=True)
print('SUMMARY', ID, json.dumps({k: v['rc'] for k, v in res.items()}))
shutil.rmtree(S, ignore_errors=True)
