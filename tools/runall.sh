#!/bin/sh
# run every check of a tier at one seed; prints one line per property
TIER=${1:-quick}; SEED=${2:-1}
cd /verif
for i in 01 02 03 04 05 06 07 08 09 10 11 12 13 14 15 16 17 18 19 20; do
  s=$(date +%s.%N)
  VERIF_SEED=$SEED ./check C$i $TIER > /tmp/krp_runall_C$i.log 2>&1
  rc=$?
  e=$(date +%s.%N)
  printf "C%s rc=%s %.1fs %s\n" $i $rc $(echo "$e - $s" | bc) "$(grep -E '^C[0-9]+ tier' /tmp/krp_runall_C$i.log | cut -c1-140)"
  grep -E "VIOLATION|INCONCLUSIVE" /tmp/krp_runall_C$i.log | head -5
done
