#!/bin/sh
# run every check of a tier at one seed; prints one line per property
TIER=${1:-quick}; SEED=${2:-1}
cd "$(dirname "$0")/.." || exit 2
T=$(mktemp -d)
for i in 01 02 03 04 05 06 07 08 09 10 11 12 13 14 15 16 17 18 19 20; do
  s=$(date +%s.%N)
  VERIF_SEED=$SEED ./check C$i $TIER > $T/C$i.log 2>&1
  rc=$?
  e=$(date +%s.%N)
  printf "C%s rc=%s %.1fs %s\n" $i $rc $(echo "$e - $s" | bc) "$(grep -E '^C[0-9]+ tier' $T/C$i.log | cut -c1-140)"
  grep -E "VIOLATION|INCONCLUSIVE" $T/C$i.log | head -5
done
