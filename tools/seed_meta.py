#!/usr/bin/env python3
"""seed_meta.py <ID> <dir> '<what it needs to manifest>' '<detection line>' [extra json]
writes seeded/<dir>/meta.json from the verification log /tmp/vs_<ID>.out"""
import sys, json, re, os
ID, d, needs, det = sys.argv[1:5]
extra = json.loads(sys.argv[5]) if len(sys.argv) > 5 else {}
log = open('/tmp/vs_%s.out' % d).read() if os.path.exists('/tmp/vs_%s.out' % d) else ''
m = re.search(r'RESULT .*', log)
meta = {
  "property": ID,
  "origin": "independent sub-agent given only the property text and a scratch worktree of /repo",
  "needs_to_manifest": needs,
  "confirmed_in_scratch_worktree": {
     "script": "tools/verify_seed.sh (fresh `git worktree` of /repo HEAD; `git apply patch.diff`; `cargo test --workspace --offline`; apply demo.diff; run tests; `git apply -R patch.diff`; run tests)",
     "result": m.group(0) if m else "see NOTES.md",
     "confirmed": "CONFIRMED %s" % ID in log,
  },
  "detection": {"how": "tools/check_seed.py (scratch copy of /repo with patch.diff applied, harness rebuilt against it, registered quick check at seed 1)", "result": det},
}
meta.update(extra)
json.dump(meta, open('/verif/seeded/%s/meta.json' % d, 'w'), indent=1)
print('wrote', d)
