#!/bin/sh
# every registered quick check against every seeded change (specificity / cross-detection matrix)
cd "$(dirname "$0")/.." || exit 2
for d in seeded/C*/; do
  id=$(basename $d)
  python3 tools/check_seed.py $id $d/patch.diff --checks all 2>&1 | grep -E "^SUMMARY|patch failed|build failed"
done
