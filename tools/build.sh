#!/bin/sh
# offline release build of the harness against /repo's current working tree (hooks on)
cd /verif/harness || exit 2
if ! cmp -s /repo/Cargo.lock Cargo.lock.repo 2>/dev/null; then cp /repo/Cargo.lock Cargo.lock.repo; fi
RUSTFLAGS="--cfg krp_verif" CARGO_NET_OFFLINE=true cargo build --release --offline 2>&1 | grep -E "^(error|warning: unused (variable|import))" -A 14 | head -${1:-60}
test -x target/release/krpmon
