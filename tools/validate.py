#!/usr/bin/env python3
import json, glob, jsonschema
jsonschema.validate(json.load(open('/verif/MANIFEST.json')), json.load(open('/root/.vp/MANIFEST.schema.json')))
s = json.load(open('/root/.vp/EVIDENCE.schema.json'))
fs = sorted(glob.glob('/verif/evidence/*.json'))
for f in fs:
    jsonschema.validate(json.load(open(f)), s)
print('manifest ok; evidence files ok:', len(fs))
