#!/bin/sh
# verify_seed.sh <ID> <agent worktree> [demo test filter]
# Confirms a seeded change independently in a fresh scratch worktree of /repo:
#  (a) patch applies to a clean checkout and the whole existing suite passes with it,
#  (b) the demonstration fails with the change, (c) passes without it.
# On success copies patch.diff / demo.diff / NOTES.md into /verif/seeded/<ID>/ and prints a JSON summary.
ID=$1; WT=$2; FILTER=$3; DIR=${4:-$ID}
V=/tmp/vs_$DIR
export CARGO_NET_OFFLINE=true CARGO_TARGET_DIR=/tmp/vs_target_$DIR
git -C /repo worktree remove --force $V 2>/dev/null
git -C /repo worktree add -q $V HEAD || exit 2
cd $V || exit 2
git apply --check $WT/seeded/patch.diff || { echo "RESULT $ID patch does not apply"; exit 1; }
git apply $WT/seeded/patch.diff
cargo test --workspace --offline > /tmp/vs_$DIR.a.log 2>&1; A=$?
NFAIL_A=$(grep -c "^test .* FAILED" /tmp/vs_$DIR.a.log)
NPASS_A=$(grep "^test result" /tmp/vs_$DIR.a.log | sed 's/.*ok\. \([0-9]*\) passed.*/\1/' | paste -sd+ | bc)
git apply $WT/seeded/demo.diff 2>/tmp/vs_$DIR.demo_apply.log || { echo "demo.diff did not apply cleanly, trying 3way/patch"; patch -p1 < $WT/seeded/demo.diff >> /tmp/vs_$DIR.demo_apply.log 2>&1; }
cargo test --workspace --offline $FILTER > /tmp/vs_$DIR.b.log 2>&1; B=$?
NFAIL_B=$(grep -c "^test .* FAILED" /tmp/vs_$DIR.b.log)
git apply -R $WT/seeded/patch.diff || { echo "RESULT $ID cannot revert patch"; exit 1; }
cargo test --workspace --offline $FILTER > /tmp/vs_$DIR.c.log 2>&1; C=$?
NFAIL_C=$(grep -c "^test .* FAILED" /tmp/vs_$DIR.c.log)
echo "RESULT $ID a_suite_with_change: rc=$A passed=$NPASS_A failed=$NFAIL_A | b_demo_with_change: rc=$B failed=$NFAIL_B | c_demo_without_change: rc=$C failed=$NFAIL_C"
grep "^test .* FAILED" /tmp/vs_$DIR.b.log | head -5
if [ $A -eq 0 ] && [ $B -ne 0 ] && [ $NFAIL_B -gt 0 ] && [ $C -eq 0 ]; then
  mkdir -p /verif/seeded/$DIR
  cp $WT/seeded/patch.diff $WT/seeded/demo.diff $WT/seeded/NOTES.md /verif/seeded/$DIR/
  echo "CONFIRMED $ID"
  RC=0
else
  echo "NOT CONFIRMED $ID"
  RC=1
fi
cd /; git -C /repo worktree remove --force $V; rm -rf /tmp/vs_target_$DIR
exit $RC
