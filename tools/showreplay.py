#!/usr/bin/env python3
import json, glob, sys
pat = sys.argv[1] if len(sys.argv) > 1 else '/verif/replays/*.json'
n = int(sys.argv[2]) if len(sys.argv) > 2 else 25
for f in sorted(glob.glob(pat)):
    d = json.load(open(f))
    print('==', f)
    print(d['cfg'])
    print(d['violated_clause'], '::', d['message'][:1500])
    for o in d['ops'][-n:]:
        print(' ', o['step'], o['time'], json.dumps(o['op']), 'OK' if o['ok'] else 'ERR ' + o['err'][:150])
