//! Mini-chain: bank, staking, distribution, wasm router with atomic transactions,
//! swap / oracle / dummy stubs. The six real contracts are linked natively and are
//! always called through their public entry points with messages re-parsed from JSON.

use cosmwasm_std::testing::MockApi;
use cosmwasm_std::{
    from_json, to_json_binary, Addr, AllBalanceResponse, AllDelegationsResponse, Attribute,
    BalanceResponse, BankMsg, BankQuery, Binary, BlockInfo, BondedDenomResponse, Coin,
    ContractInfo, ContractResult, CosmosMsg, Decimal, Delegation, DelegationResponse, Deps,
    DepsMut, DistributionMsg, Empty, Env, Fraction, FullDelegation, MessageInfo, Order, Querier,
    QuerierResult, QuerierWrapper, QueryRequest, Record, ReplyOn, Response, StakingMsg,
    StakingQuery, Storage, SystemError, SystemResult, Timestamp, Uint128, WasmMsg, WasmQuery,
};
use std::cell::RefCell;
use std::collections::BTreeMap;
use std::panic::{catch_unwind, AssertUnwindSafe};

#[derive(Clone, Default, PartialEq, Eq, Debug)]
pub struct Store(pub BTreeMap<Vec<u8>, Vec<u8>>);

impl Storage for Store {
    fn get(&self, key: &[u8]) -> Option<Vec<u8>> {
        self.0.get(key).cloned()
    }
    fn set(&mut self, key: &[u8], value: &[u8]) {
        if value.is_empty() {
            panic!("TL;DR: Value must not be empty in Storage::set");
        }
        self.0.insert(key.to_vec(), value.to_vec());
    }
    fn remove(&mut self, key: &[u8]) {
        self.0.remove(key);
    }
    fn range<'a>(
        &'a self,
        start: Option<&[u8]>,
        end: Option<&[u8]>,
        order: Order,
    ) -> Box<dyn Iterator<Item = Record> + 'a> {
        use std::ops::Bound;
        let s = start.map_or(Bound::Unbounded, |x| Bound::Included(x.to_vec()));
        let e = end.map_or(Bound::Unbounded, |x| Bound::Excluded(x.to_vec()));
        if let (Bound::Included(a), Bound::Excluded(b)) = (&s, &e) {
            if a >= b {
                return Box::new(std::iter::empty());
            }
        }
        let it = self.0.range((s, e)).map(|(k, v)| (k.clone(), v.clone()));
        match order {
            Order::Ascending => Box::new(it),
            Order::Descending => Box::new(it.rev()),
        }
    }
}

#[derive(Clone, Copy, PartialEq, Eq, Debug, PartialOrd, Ord)]
pub enum Kind {
    Hub,
    Reward,
    Dispatcher,
    Registry,
    BSei,
    StSei,
    Swap,
    Oracle,
    /// accepts every execute message (used as cw20 receiver / airdrop contracts)
    Dummy,
}

#[derive(Clone, Copy, PartialEq, Eq, Debug)]
pub enum Fault {
    Ok,
    Error,
    Garbage,
    Zero,
    ShortPay,
    Panic,
}

pub const ALL_FAULTS: [Fault; 6] =
    [Fault::Ok, Fault::Error, Fault::Garbage, Fault::Zero, Fault::ShortPay, Fault::Panic];

#[derive(Clone, Debug, PartialEq)]
pub struct Unbonding {
    pub delegator: String,
    pub validator: String,
    pub amount: u128,
    pub initial: u128,
    pub created: u64,
    pub completion: u64,
}

#[derive(Clone, Debug, PartialEq)]
pub struct RedelegLock {
    pub delegator: String,
    pub dst: String,
    pub amount: u128,
    pub until: u64,
}

#[derive(Clone, Debug, PartialEq)]
pub enum Ev {
    BankSend { from: String, to: String, coins: Vec<Coin> },
    ZeroCoinSkipped { from: String, to: String, denom: String },
    Delegate { delegator: String, validator: String, amount: u128 },
    Undelegate { delegator: String, validator: String, amount: u128 },
    Redelegate { delegator: String, src: String, dst: String, amount: u128 },
    SetWithdrawAddress { delegator: String, address: String },
    WithdrawReward { delegator: String, validator: String },
    RewardPaid { delegator: String, validator: String, to: String, denom: String, amount: u128 },
    Matured { delegator: String, validator: String, amount: u128, initial: u128, created: u64 },
    /// coins attached to a wasm execute (moved before the callee runs)
    Funds { from: String, to: String, coins: Vec<Coin> },
}

#[derive(Clone, Debug, PartialEq)]
pub struct EvRec {
    /// index (in `Trace::execs`) of the contract execution whose response carried the message
    pub exec: usize,
    /// position in the transaction-wide order of executions and chain events
    pub seq: usize,
    pub ev: Ev,
}

#[derive(Clone, Debug, PartialEq)]
pub struct ExecRec {
    pub seq: usize,
    pub depth: usize,
    pub caller: String,
    pub callee: String,
    pub msg: String,
    pub funds: Vec<Coin>,
    pub attrs: Vec<Attribute>,
    /// the contract's own handler returned Ok (its messages may still have failed afterwards)
    pub handler_ok: bool,
}

#[derive(Clone, Debug, Default, PartialEq)]
pub struct Trace {
    pub execs: Vec<ExecRec>,
    /// (caller, callee) of every wasm smart query, nested ones included
    pub queries: Vec<(String, String)>,
    pub events: Vec<EvRec>,
}

impl Trace {
    fn push(&mut self, exec: usize, ev: Ev) {
        let seq = self.execs.len() + self.events.len();
        self.events.push(EvRec { exec, seq, ev });
    }
    pub fn evs(&self) -> impl Iterator<Item = &Ev> {
        self.events.iter().map(|e| &e.ev)
    }
}

#[derive(Clone, Debug, PartialEq)]
pub struct TxResult {
    pub ok: bool,
    pub err: String,
    pub panicked: bool,
    /// harness-level problem (unsupported message kind etc.): the run is inconclusive
    pub harness_error: bool,
    pub trace: Trace,
}

#[derive(Clone)]
pub struct World {
    pub time: u64,
    pub height: u64,
    pub kinds: BTreeMap<String, Kind>,
    pub stores: BTreeMap<String, Store>,
    pub bank: BTreeMap<(String, String), u128>,
    pub deleg: BTreeMap<(String, String), u128>,
    pub unbonding: Vec<Unbonding>,
    pub locks: Vec<RedelegLock>,
    pub rewards: BTreeMap<(String, String), BTreeMap<String, u128>>,
    pub withdraw_addr: BTreeMap<String, String>,
    pub unbonding_time: u64,
    pub bond_denom: String,
    /// oracle price: one unit of `bond_denom` reward coin priced in `usd_denom`
    pub price: Decimal,
    /// price of other denoms in usd_denom
    pub other_prices: BTreeMap<String, Decimal>,
    pub usd_denom: String,
    pub swap_fault: Fault,
    pub oracle_fault: Fault,
    pub bank_lenient: bool,
    pub redelegate_blocked: bool,
}

thread_local! {
    static QLOG: RefCell<Vec<(String, String)>> = RefCell::new(Vec::new());
    /// true while contract code runs under catch_unwind (panics there are transaction failures, not harness bugs)
    pub static IN_TX: std::cell::Cell<bool> = std::cell::Cell::new(false);
}

thread_local! {
    /// set whenever the mini-chain meets something it does not model (a query kind it cannot answer, a sub-message
    /// with a reply, an unsupported message): whatever was observed around it proves nothing about the contracts, so
    /// the driver discards the step's verdicts and reports the history as inconclusive
    pub static MODEL_GAP: RefCell<Option<String>> = RefCell::new(None);
}

pub fn note_model_gap(what: String) {
    MODEL_GAP.with(|g| {
        let mut g = g.borrow_mut();
        if g.is_none() {
            *g = Some(what);
        }
    });
}

thread_local! {
    /// true while a monitor runs under catch_unwind (see driver): a panic there means the observed values were
    /// inconsistent (e.g. a supply that grew on a burn underflows a subtraction) and is reported as a violation
    pub static IN_MONITOR: std::cell::Cell<bool> = std::cell::Cell::new(false);
    pub static LAST_PANIC: RefCell<String> = RefCell::new(String::new());
}

pub fn install_panic_hook() {
    std::panic::set_hook(Box::new(|info| {
        if IN_MONITOR.with(|f| f.get()) {
            LAST_PANIC.with(|p| *p.borrow_mut() = info.to_string());
        } else if !IN_TX.with(|f| f.get()) {
            let bt = std::backtrace::Backtrace::capture().to_string();
            let short: Vec<&str> = bt.lines().filter(|l| l.contains("krpmon::") || l.contains("./harness/src")).take(12).collect();
            eprintln!("HARNESS PANIC: {}\n{}", info, short.join("\n"));
        }
    }));
}

struct WQ<'a> {
    w: &'a World,
    caller: String,
}

impl<'a> Querier for WQ<'a> {
    fn raw_query(&self, bin: &[u8]) -> QuerierResult {
        let req: QueryRequest<Empty> = match from_json(bin) {
            Ok(r) => r,
            Err(e) => {
                return SystemResult::Err(SystemError::InvalidRequest {
                    error: e.to_string(),
                    request: bin.into(),
                })
            }
        };
        self.w.query_as(&self.caller, req)
    }
}

fn validator_json(a: &str) -> serde_json::Value {
    serde_json::json!({"address": a, "commission": "0.05", "max_commission": "0.2", "max_change_rate": "0.01"})
}

fn ok_bin<T: serde::Serialize>(t: &T) -> QuerierResult {
    SystemResult::Ok(ContractResult::Ok(to_json_binary(t).unwrap()))
}

fn es<E: std::fmt::Display>(e: E) -> String {
    e.to_string()
}

pub fn coin(amount: u128, denom: &str) -> Coin {
    Coin { denom: denom.to_string(), amount: Uint128::new(amount) }
}

impl World {
    pub fn new(time: u64, unbonding_time: u64, bond_denom: &str, usd_denom: &str, price: Decimal) -> World {
        World {
            time,
            height: 1,
            kinds: BTreeMap::new(),
            stores: BTreeMap::new(),
            bank: BTreeMap::new(),
            deleg: BTreeMap::new(),
            unbonding: vec![],
            locks: vec![],
            rewards: BTreeMap::new(),
            withdraw_addr: BTreeMap::new(),
            unbonding_time,
            bond_denom: bond_denom.to_string(),
            price,
            other_prices: BTreeMap::new(),
            usd_denom: usd_denom.to_string(),
            swap_fault: Fault::Ok,
            oracle_fault: Fault::Ok,
            bank_lenient: false,
            redelegate_blocked: false,
        }
    }

    pub fn bal(&self, a: &str, d: &str) -> u128 {
        *self.bank.get(&(a.to_string(), d.to_string())).unwrap_or(&0)
    }
    pub fn mint_coins(&mut self, a: &str, d: &str, amount: u128) {
        *self.bank.entry((a.to_string(), d.to_string())).or_insert(0) += amount;
    }
    pub fn delegation(&self, delegator: &str, v: &str) -> u128 {
        *self.deleg.get(&(delegator.to_string(), v.to_string())).unwrap_or(&0)
    }
    pub fn delegations_of(&self, delegator: &str) -> Vec<(String, u128)> {
        self.deleg
            .iter()
            .filter(|((d, _), _)| d == delegator)
            .map(|((_, v), a)| (v.clone(), *a))
            .collect()
    }
    pub fn total_delegated(&self, delegator: &str) -> u128 {
        self.delegations_of(delegator).iter().map(|x| x.1).sum()
    }
    pub fn locked_on(&self, delegator: &str, v: &str) -> u128 {
        self.locks
            .iter()
            .filter(|l| l.delegator == delegator && l.dst == v && l.until > self.time)
            .map(|l| l.amount)
            .sum()
    }
    pub fn can_redelegate(&self, delegator: &str, v: &str) -> u128 {
        if self.redelegate_blocked {
            return 0;
        }
        self.delegation(delegator, v).saturating_sub(self.locked_on(delegator, v))
    }

    pub fn env(&self, c: &str) -> Env {
        Env {
            block: BlockInfo {
                height: self.height,
                time: Timestamp::from_seconds(self.time),
                chain_id: "krpmon-1".into(),
            },
            transaction: None,
            contract: ContractInfo { address: Addr::unchecked(c) },
        }
    }

    // ------------------------------------------------------------------ queries

    pub fn query_as(&self, caller: &str, req: QueryRequest<Empty>) -> QuerierResult {
        match req {
            QueryRequest::Bank(BankQuery::Balance { address, denom }) => ok_bin(&BalanceResponse {
                amount: Coin::new(self.bal(&address, &denom), denom),
            }),
            QueryRequest::Bank(BankQuery::AllBalances { address }) => {
                let v: Vec<Coin> = self
                    .bank
                    .iter()
                    .filter(|((a, _), v)| *a == address && **v > 0)
                    .map(|((_, d), v)| Coin::new(*v, d.clone()))
                    .collect();
                ok_bin(&AllBalanceResponse { amount: v })
            }
            QueryRequest::Staking(StakingQuery::BondedDenom {}) => {
                ok_bin(&BondedDenomResponse { denom: self.bond_denom.clone() })
            }
            QueryRequest::Staking(StakingQuery::AllDelegations { delegator }) => {
                let v: Vec<Delegation> = self
                    .deleg
                    .iter()
                    .filter(|((d, _), _)| *d == delegator)
                    .map(|((d, v), a)| Delegation {
                        delegator: Addr::unchecked(d),
                        validator: v.clone(),
                        amount: Coin::new(*a, self.bond_denom.clone()),
                    })
                    .collect();
                ok_bin(&AllDelegationsResponse { delegations: v })
            }
            QueryRequest::Staking(StakingQuery::Delegation { delegator, validator }) => {
                let d = self.deleg.get(&(delegator.clone(), validator.clone())).map(|a| {
                    let acc: Vec<Coin> = self
                        .rewards
                        .get(&(delegator.clone(), validator.clone()))
                        .map(|m| m.iter().map(|(d, a)| Coin::new(*a, d.clone())).collect())
                        .unwrap_or_default();
                    FullDelegation {
                        delegator: Addr::unchecked(delegator.clone()),
                        validator: validator.clone(),
                        amount: Coin::new(*a, self.bond_denom.clone()),
                        can_redelegate: Coin::new(
                            self.can_redelegate(&delegator, &validator),
                            self.bond_denom.clone(),
                        ),
                        accumulated_rewards: acc,
                    }
                });
                ok_bin(&DelegationResponse { delegation: d })
            }
            QueryRequest::Wasm(WasmQuery::Smart { contract_addr, msg }) => {
                QLOG.with(|q| q.borrow_mut().push((caller.to_string(), contract_addr.clone())));
                let kind = match self.kinds.get(&contract_addr) {
                    Some(k) => *k,
                    None => {
                        return SystemResult::Err(SystemError::NoSuchContract { addr: contract_addr })
                    }
                };
                let r = self.smart(kind, &contract_addr, &msg);
                match r {
                    Ok(b) => SystemResult::Ok(ContractResult::Ok(b)),
                    Err(e) => SystemResult::Ok(ContractResult::Err(e)),
                }
            }
            QueryRequest::Wasm(WasmQuery::Raw { contract_addr, key }) => {
                if !self.kinds.contains_key(&contract_addr) {
                    return SystemResult::Err(SystemError::NoSuchContract { addr: contract_addr });
                }
                let v = self.stores.get(&contract_addr).and_then(|st| st.0.get(key.as_slice()).cloned()).unwrap_or_default();
                SystemResult::Ok(ContractResult::Ok(Binary::from(v)))
            }
            QueryRequest::Staking(StakingQuery::AllValidators {}) => {
                let vals: Vec<serde_json::Value> = crate::setup::VALIDATORS.iter().map(|v| validator_json(v)).collect();
                SystemResult::Ok(ContractResult::Ok(Binary::from(serde_json::to_vec(&serde_json::json!({ "validators": vals })).unwrap())))
            }
            QueryRequest::Staking(StakingQuery::Validator { address }) => {
                let v = if crate::setup::VALIDATORS.contains(&address.as_str()) { validator_json(&address) } else { serde_json::Value::Null };
                SystemResult::Ok(ContractResult::Ok(Binary::from(serde_json::to_vec(&serde_json::json!({ "validator": v })).unwrap())))
            }
            other => {
                // a request kind this mini-chain cannot answer: a gap of the model, not a fact about the contracts
                note_model_gap(format!("query kind not modelled: {:?}", other).chars().take(160).collect());
                SystemResult::Err(SystemError::UnsupportedRequest { kind: format!("{:?}", other) })
            }
        }
    }

    fn smart(&self, kind: Kind, addr: &str, msg: &Binary) -> Result<Binary, String> {
        let empty = Store::default();
        let st = self.stores.get(addr).unwrap_or(&empty);
        let api = MockApi::default();
        let wq = WQ { w: self, caller: addr.to_string() };
        let deps = Deps { storage: st, api: &api, querier: QuerierWrapper::new(&wq) };
        let env = self.env(addr);
        match kind {
            Kind::Hub => from_json(msg).map_err(es).and_then(|m| basset_sei_hub::contract::query(deps, env, m).map_err(es)),
            Kind::Reward => from_json(msg).map_err(es).and_then(|m| basset_sei_reward::contract::query(deps, env, m).map_err(es)),
            Kind::Dispatcher => from_json(msg).map_err(es).and_then(|m| basset_sei_rewards_dispatcher::contract::query(deps, env, m).map_err(es)),
            Kind::Registry => from_json(msg).map_err(es).and_then(|m| basset_sei_validators_registry::contract::query(deps, env, m).map_err(es)),
            Kind::BSei => from_json(msg).map_err(es).and_then(|m| basset_sei_token_bsei::contract::query(deps, env, m).map_err(es)),
            Kind::StSei => from_json(msg).map_err(es).and_then(|m| basset_sei_token_stsei::contract::query(deps, env, m).map_err(es)),
            Kind::Oracle => match self.oracle_fault {
                Fault::Ok | Fault::ShortPay => Ok(to_json_binary(&self.price).unwrap()),
                Fault::Error => Err("oracle: unavailable".into()),
                Fault::Garbage => Ok(Binary::from(b"{\"garbage\":[1,2".to_vec())),
                Fault::Zero => Ok(to_json_binary(&Decimal::zero()).unwrap()),
                // a contract that aborts inside a query gives the querier an error (the VM traps it); only an
                // aborting *execution* tears the transaction down
                Fault::Panic => Err("oracle: aborted".into()),
            },
            Kind::Swap => {
                match self.swap_fault {
                    Fault::Error => return Err("swap: unavailable".into()),
                    Fault::Garbage => return Ok(Binary::from(b"[[[".to_vec())),
                    Fault::Panic => return Err("swap: aborted".into()),
                    _ => {}
                }
                let q: basset::swap_ext::SwapQueryMsg = from_json(msg).map_err(es)?;
                match q {
                    basset::swap_ext::SwapQueryMsg::QuerySimulation { asset_infos, offer_asset } => {
                        let from = match &offer_asset.info {
                            basset::swap_ext::AssetInfo::NativeToken { denom } => denom.clone(),
                            _ => return Err("swap: only native".into()),
                        };
                        let to = match &asset_infos[1] {
                            basset::swap_ext::AssetInfo::NativeToken { denom } => denom.clone(),
                            _ => return Err("swap: only native".into()),
                        };
                        let out = if self.swap_fault == Fault::Zero {
                            Uint128::zero()
                        } else {
                            self.swap_out(&from, &to, offer_asset.amount)?
                        };
                        Ok(to_json_binary(&basset::swap_ext::SimulationResponse {
                            return_amount: out,
                            spread_amount: Uint128::zero(),
                            commission_amount: Uint128::zero(),
                        })
                        .unwrap())
                    }
                    #[allow(unreachable_patterns)]
                    _ => Err("swap: unsupported query".into()),
                }
            }
            Kind::Dummy => Ok(to_json_binary(&cw20::BalanceResponse { balance: Uint128::zero() }).unwrap()),
        }
    }

    /// Output of the swap stub for `amount` of `from` into `to` (floor, like the contracts' own arithmetic).
    pub fn swap_out(&self, from: &str, to: &str, amount: Uint128) -> Result<Uint128, String> {
        let to_usd = |d: &str| -> Result<Decimal, String> {
            if d == self.usd_denom {
                Ok(Decimal::one())
            } else if d == self.bond_denom {
                Ok(self.price)
            } else {
                self.other_prices.get(d).cloned().ok_or_else(|| format!("swap: no price for {}", d))
            }
        };
        if from == to {
            return Ok(amount);
        }
        if to == self.usd_denom {
            Ok(amount * to_usd(from)?)
        } else if from == self.usd_denom {
            let p = to_usd(to)?;
            Ok(amount * p.inv().ok_or("swap: zero price")?)
        } else {
            let usd = amount * to_usd(from)?;
            let p = to_usd(to)?;
            Ok(usd * p.inv().ok_or("swap: zero price")?)
        }
    }

    /// Query a contract from the outside (monitor / client), not recorded as a cross-contract query.
    pub fn q<T: serde::de::DeserializeOwned, M: serde::Serialize>(&self, c: &str, m: &M) -> Result<T, String> {
        let saved = QLOG.with(|q| q.borrow().len());
        let r = match self.kinds.get(c) {
            Some(k) => {
                let was = IN_TX.with(|f| f.replace(true));
                let bin = to_json_binary(m).unwrap();
                let r = catch_unwind(AssertUnwindSafe(|| self.smart(*k, c, &bin)));
                IN_TX.with(|f| f.set(was));
                match r {
                    Ok(x) => x,
                    Err(p) => Err(format!("panic in query: {}", panic_text(&p))),
                }
            }
            None => Err(format!("no such contract {}", c)),
        };
        QLOG.with(|q| q.borrow_mut().truncate(saved));
        r.and_then(|b| from_json(&b).map_err(es))
    }

    // ------------------------------------------------------------------ bank

    fn send(&mut self, from: &str, to: &str, coins: &[Coin], tr: &mut Trace, ex: usize, as_funds: bool) -> Result<(), String> {
        let mut moved = vec![];
        for c in coins {
            if c.amount.is_zero() {
                if self.bank_lenient {
                    tr.push(ex, Ev::ZeroCoinSkipped { from: from.to_string(), to: to.to_string(), denom: c.denom.clone() });
                    continue;
                }
                return Err(format!("bank: invalid coins: zero amount of {} from {} to {}", c.denom, from, to));
            }
            let k = (from.to_string(), c.denom.clone());
            let b = *self.bank.get(&k).unwrap_or(&0);
            if b < c.amount.u128() {
                return Err(format!(
                    "bank: insufficient funds: {} has {}{} < {}",
                    from, b, c.denom, c.amount
                ));
            }
            self.bank.insert(k, b - c.amount.u128());
            *self.bank.entry((to.to_string(), c.denom.clone())).or_insert(0) += c.amount.u128();
            moved.push(c.clone());
        }
        if !moved.is_empty() {
            if as_funds {
                tr.push(ex, Ev::Funds { from: from.to_string(), to: to.to_string(), coins: moved });
            } else {
                tr.push(ex, Ev::BankSend { from: from.to_string(), to: to.to_string(), coins: moved });
            }
        }
        Ok(())
    }

    fn pay_rewards(&mut self, d: &str, v: &str, tr: &mut Trace, ex: usize) {
        if let Some(r) = self.rewards.remove(&(d.to_string(), v.to_string())) {
            let to = self.withdraw_addr.get(d).cloned().unwrap_or_else(|| d.to_string());
            for (den, a) in r {
                if a == 0 {
                    continue;
                }
                *self.bank.entry((to.clone(), den.clone())).or_insert(0) += a;
                tr.push(ex, Ev::RewardPaid {
                    delegator: d.to_string(),
                    validator: v.to_string(),
                    to: to.clone(),
                    denom: den,
                    amount: a,
                });
            }
        }
    }

    // ------------------------------------------------------------------ transactions

    /// One atomic transaction: any error or panic anywhere in the message tree reverts everything.
    pub fn tx(&mut self, sender: &str, contract: &str, msg: &Binary, funds: &[Coin]) -> TxResult {
        let snap = self.clone();
        QLOG.with(|q| q.borrow_mut().clear());
        let mut tr = Trace::default();
        let mut harness_error = false;
        let was = IN_TX.with(|f| f.replace(true));
        let r = catch_unwind(AssertUnwindSafe(|| self.exec(sender, contract, msg, funds, 0, &mut tr, &mut harness_error)));
        IN_TX.with(|f| f.set(was));
        tr.queries = QLOG.with(|q| std::mem::take(&mut *q.borrow_mut()));
        match r {
            Ok(Ok(())) => TxResult { ok: true, err: String::new(), panicked: false, harness_error, trace: tr },
            Ok(Err(e)) => {
                *self = snap;
                TxResult { ok: false, err: e, panicked: false, harness_error, trace: tr }
            }
            Err(p) => {
                *self = snap;
                let m = panic_text(&p);
                TxResult { ok: false, err: format!("panic: {}", m), panicked: true, harness_error, trace: tr }
            }
        }
    }

    fn exec(
        &mut self,
        sender: &str,
        contract: &str,
        msg: &Binary,
        funds: &[Coin],
        depth: usize,
        tr: &mut Trace,
        herr: &mut bool,
    ) -> Result<(), String> {
        if depth > 24 {
            return Err("router: call depth exceeded".into());
        }
        let rec_idx = tr.execs.len();
        let seq = tr.execs.len() + tr.events.len();
        tr.execs.push(ExecRec {
            seq,
            depth,
            caller: sender.to_string(),
            callee: contract.to_string(),
            msg: String::from_utf8_lossy(msg.as_slice()).to_string(),
            funds: funds.to_vec(),
            attrs: vec![],
            handler_ok: false,
        });
        if !funds.is_empty() {
            // wasmd moves attached funds with the bank keeper before the callee runs
            let lenient = self.bank_lenient;
            self.bank_lenient = false;
            let r = self.send(sender, contract, funds, tr, rec_idx, true);
            self.bank_lenient = lenient;
            r?;
        }
        let kind = *self.kinds.get(contract).ok_or_else(|| format!("no such contract {}", contract))?;
        let mut st = self.stores.get(contract).cloned().unwrap_or_default();
        let api = MockApi::default();
        let env = self.env(contract);
        let info = MessageInfo { sender: Addr::unchecked(sender), funds: funds.to_vec() };
        let resp: Response = {
            let wq = WQ { w: self, caller: contract.to_string() };
            let deps = DepsMut { storage: &mut st, api: &api, querier: QuerierWrapper::new(&wq) };
            match kind {
                Kind::Hub => basset_sei_hub::contract::execute(deps, env, info, from_json(msg).map_err(es)?).map_err(es)?,
                Kind::Reward => basset_sei_reward::contract::execute(deps, env, info, from_json(msg).map_err(es)?).map_err(es)?,
                Kind::Dispatcher => basset_sei_rewards_dispatcher::contract::execute(deps, env, info, from_json(msg).map_err(es)?).map_err(es)?,
                Kind::Registry => basset_sei_validators_registry::contract::execute(deps, env, info, from_json(msg).map_err(es)?).map_err(es)?,
                Kind::BSei => basset_sei_token_bsei::contract::execute(deps, env, info, from_json(msg).map_err(es)?).map_err(es)?,
                Kind::StSei => basset_sei_token_stsei::contract::execute(deps, env, info, from_json(msg).map_err(es)?).map_err(es)?,
                Kind::Swap => {
                    match self.swap_fault {
                        Fault::Error => return Err("swap: unavailable".into()),
                        Fault::Garbage => return Err("swap: garbage".into()),
                        Fault::Panic => panic!("swap stub panic"),
                        _ => {}
                    }
                    let m: basset::swap_ext::SwapExecteMsg = from_json(msg).map_err(es)?;
                    let basset::swap_ext::SwapExecteMsg::SwapDenom { from_coin, target_denom, to_address } = m;
                    if funds.len() != 1 || funds[0] != from_coin {
                        return Err("swap: funds do not match from_coin".into());
                    }
                    let mut out = self.swap_out(&from_coin.denom, &target_denom, from_coin.amount)?;
                    match self.swap_fault {
                        Fault::Zero => out = Uint128::zero(),
                        Fault::ShortPay => out = Uint128::new(out.u128() / 2),
                        _ => {}
                    }
                    let to = to_address.unwrap_or_else(|| sender.to_string());
                    let mut r = Response::new();
                    if !out.is_zero() {
                        // the stub has its own liquidity
                        *self.bank.entry((contract.to_string(), target_denom.clone())).or_insert(0) += out.u128();
                        r = r.add_message(BankMsg::Send {
                            to_address: to,
                            amount: vec![Coin { denom: target_denom, amount: out }],
                        });
                    }
                    r
                }
                Kind::Oracle => return Err("oracle has no execute".into()),
                Kind::Dummy => Response::new(),
            }
        };
        self.stores.insert(contract.to_string(), st);
        tr.execs[rec_idx].attrs = resp.attributes.clone();
        tr.execs[rec_idx].handler_ok = true;
        for sm in resp.messages {
            if sm.reply_on != ReplyOn::Never {
                *herr = true;
                note_model_gap("sub-message with reply_on other than Never".into());
                return Err("router: reply_on other than Never is not modelled".into());
            }
            self.dispatch(contract, sm.msg, depth + 1, tr, herr, rec_idx)?;
        }
        Ok(())
    }

    fn dispatch(&mut self, from: &str, msg: CosmosMsg, depth: usize, tr: &mut Trace, herr: &mut bool, ex: usize) -> Result<(), String> {
        match msg {
            CosmosMsg::Wasm(WasmMsg::Execute { contract_addr, msg, funds }) => {
                self.exec(from, &contract_addr, &msg, &funds, depth, tr, herr)
            }
            CosmosMsg::Bank(BankMsg::Send { to_address, amount }) => {
                if amount.is_empty() {
                    return Err("bank: invalid coins: empty".into());
                }
                self.send(from, &to_address, &amount, tr, ex, false)
            }
            CosmosMsg::Staking(StakingMsg::Delegate { validator, amount }) => {
                if amount.denom != self.bond_denom || amount.amount.is_zero() {
                    return Err(format!("staking: invalid delegate coin {}", amount));
                }
                self.pay_rewards(from, &validator, tr, ex);
                let k = (from.to_string(), self.bond_denom.clone());
                let b = *self.bank.get(&k).unwrap_or(&0);
                if b < amount.amount.u128() {
                    return Err("staking: insufficient funds to delegate".into());
                }
                self.bank.insert(k, b - amount.amount.u128());
                *self.deleg.entry((from.to_string(), validator.clone())).or_insert(0) += amount.amount.u128();
                tr.push(ex, Ev::Delegate { delegator: from.to_string(), validator, amount: amount.amount.u128() });
                Ok(())
            }
            CosmosMsg::Staking(StakingMsg::Undelegate { validator, amount }) => {
                if amount.denom != self.bond_denom || amount.amount.is_zero() {
                    return Err(format!("staking: invalid undelegate coin {}", amount));
                }
                let k = (from.to_string(), validator.clone());
                let d = *self.deleg.get(&k).unwrap_or(&0);
                if d < amount.amount.u128() {
                    return Err(format!("staking: undelegate {} exceeds delegation {} on {}", amount.amount, d, validator));
                }
                self.pay_rewards(from, &validator, tr, ex);
                if d == amount.amount.u128() {
                    self.deleg.remove(&k);
                } else {
                    self.deleg.insert(k, d - amount.amount.u128());
                }
                self.unbonding.push(Unbonding {
                    delegator: from.to_string(),
                    validator: validator.clone(),
                    amount: amount.amount.u128(),
                    initial: amount.amount.u128(),
                    created: self.time,
                    completion: self.time + self.unbonding_time,
                });
                tr.push(ex, Ev::Undelegate { delegator: from.to_string(), validator, amount: amount.amount.u128() });
                Ok(())
            }
            CosmosMsg::Staking(StakingMsg::Redelegate { src_validator, dst_validator, amount }) => {
                if amount.denom != self.bond_denom || amount.amount.is_zero() {
                    return Err(format!("staking: invalid redelegate coin {}", amount));
                }
                if src_validator == dst_validator {
                    return Err("staking: cannot redelegate to the same validator".into());
                }
                if self.redelegate_blocked {
                    return Err("staking: redelegation not allowed now".into());
                }
                let k = (from.to_string(), src_validator.clone());
                let d = *self.deleg.get(&k).unwrap_or(&0);
                if d < amount.amount.u128() {
                    return Err("staking: redelegate exceeds delegation".into());
                }
                if self.can_redelegate(from, &src_validator) < amount.amount.u128() {
                    return Err("staking: redelegation to this validator already in progress".into());
                }
                self.pay_rewards(from, &src_validator, tr, ex);
                self.pay_rewards(from, &dst_validator, tr, ex);
                if d == amount.amount.u128() {
                    self.deleg.remove(&k);
                } else {
                    self.deleg.insert(k, d - amount.amount.u128());
                }
                *self.deleg.entry((from.to_string(), dst_validator.clone())).or_insert(0) += amount.amount.u128();
                self.locks.push(RedelegLock {
                    delegator: from.to_string(),
                    dst: dst_validator.clone(),
                    amount: amount.amount.u128(),
                    until: self.time + self.unbonding_time,
                });
                tr.push(ex, Ev::Redelegate {
                    delegator: from.to_string(),
                    src: src_validator,
                    dst: dst_validator,
                    amount: amount.amount.u128(),
                });
                Ok(())
            }
            CosmosMsg::Distribution(DistributionMsg::SetWithdrawAddress { address }) => {
                self.withdraw_addr.insert(from.to_string(), address.clone());
                tr.push(ex, Ev::SetWithdrawAddress { delegator: from.to_string(), address });
                Ok(())
            }
            CosmosMsg::Distribution(DistributionMsg::WithdrawDelegatorReward { validator }) => {
                if !self.deleg.contains_key(&(from.to_string(), validator.clone())) {
                    return Err(format!("distribution: no delegation on {}", validator));
                }
                tr.push(ex, Ev::WithdrawReward { delegator: from.to_string(), validator: validator.clone() });
                self.pay_rewards(from, &validator, tr, ex);
                Ok(())
            }
            other => {
                *herr = true;
                Err(format!("router: unsupported message {:?}", other))
            }
        }
    }

    // ------------------------------------------------------------------ environment moves

    /// Advance the clock; matured unbondings are credited at the beginning of the new block.
    pub fn advance(&mut self, dt: u64) -> Vec<Ev> {
        self.time += dt;
        self.height += 1;
        let t = self.time;
        let mut evs = vec![];
        let (done, rest): (Vec<_>, Vec<_>) = self.unbonding.drain(..).partition(|u| u.completion <= t);
        self.unbonding = rest;
        for u in done {
            if u.amount > 0 {
                *self.bank.entry((u.delegator.clone(), self.bond_denom.clone())).or_insert(0) += u.amount;
            }
            evs.push(Ev::Matured { delegator: u.delegator, validator: u.validator, amount: u.amount, initial: u.initial, created: u.created });
        }
        self.locks.retain(|l| l.until > t);
        evs
    }

    /// Slash validator `v` by num/den: bonded delegations, and (optionally) unbonding entries.
    /// Returns (bonded loss, unbonding loss).
    pub fn slash(&mut self, v: &str, num: u128, den: u128, unbonding_too: bool) -> (u128, u128) {
        let mut bl = 0u128;
        let mut ul = 0u128;
        let keys: Vec<(String, String)> = self.deleg.keys().filter(|k| k.1 == v).cloned().collect();
        for k in keys {
            let d = self.deleg[&k];
            let keep = mul_div_floor(d, den - num, den);
            bl += d - keep;
            if keep == 0 {
                self.deleg.remove(&k);
                // pending rewards of a vanished delegation are paid out (the SDK withdraws on removal)
                let mut tr = Trace::default();
                self.pay_rewards(&k.0, &k.1, &mut tr, 0);
            } else {
                self.deleg.insert(k, keep);
            }
        }
        if unbonding_too {
            for u in self.unbonding.iter_mut().filter(|u| u.validator == v) {
                let keep = mul_div_floor(u.amount, den - num, den);
                ul += u.amount - keep;
                u.amount = keep;
            }
        }
        (bl, ul)
    }

    pub fn accrue(&mut self, delegator: &str, v: &str, denom: &str, amount: u128) -> bool {
        if !self.deleg.contains_key(&(delegator.to_string(), v.to_string())) || amount == 0 {
            return false;
        }
        *self
            .rewards
            .entry((delegator.to_string(), v.to_string()))
            .or_default()
            .entry(denom.to_string())
            .or_insert(0) += amount;
        true
    }

    pub fn pending_rewards(&self, delegator: &str) -> BTreeMap<String, u128> {
        let mut m = BTreeMap::new();
        for ((d, _), r) in self.rewards.iter() {
            if d == delegator {
                for (den, a) in r {
                    *m.entry(den.clone()).or_insert(0) += *a;
                }
            }
        }
        m
    }

    /// Digest of everything observable (all contract storage, bank, staking, distribution).
    pub fn digest(&self) -> u64 {
        use std::hash::{Hash, Hasher};
        let mut h = std::collections::hash_map::DefaultHasher::new();
        for (a, s) in &self.stores {
            a.hash(&mut h);
            for (k, v) in &s.0 {
                k.hash(&mut h);
                v.hash(&mut h);
            }
        }
        for (k, v) in &self.bank {
            if *v > 0 {
                k.hash(&mut h);
                v.hash(&mut h);
            }
        }
        self.deleg.hash(&mut h);
        for u in &self.unbonding {
            (&u.delegator, &u.validator, u.amount, u.completion).hash(&mut h);
        }
        for l in &self.locks {
            (&l.delegator, &l.dst, l.amount, l.until).hash(&mut h);
        }
        self.rewards.hash(&mut h);
        self.withdraw_addr.hash(&mut h);
        h.finish()
    }

    /// Like `digest` but lists the differing components, for diagnostics.
    pub fn diff(&self, o: &World) -> Vec<String> {
        let mut out = vec![];
        for (a, s) in &self.stores {
            let e = Store::default();
            let t = o.stores.get(a).unwrap_or(&e);
            if s != t {
                for (k, v) in &s.0 {
                    if t.0.get(k) != Some(v) {
                        out.push(format!("store {} key {:?}: {:?} vs {:?}", a, String::from_utf8_lossy(k), String::from_utf8_lossy(v), t.0.get(k).map(|x| String::from_utf8_lossy(x).to_string())));
                    }
                }
                for k in t.0.keys() {
                    if !s.0.contains_key(k) {
                        out.push(format!("store {} key {:?}: missing vs present", a, String::from_utf8_lossy(k)));
                    }
                }
            }
        }
        let nz = |m: &BTreeMap<(String, String), u128>| -> BTreeMap<(String, String), u128> {
            m.iter().filter(|(_, v)| **v > 0).map(|(k, v)| (k.clone(), *v)).collect()
        };
        if nz(&self.bank) != nz(&o.bank) {
            out.push(format!("bank differs"));
        }
        if self.deleg != o.deleg {
            out.push(format!("delegations differ: {:?} vs {:?}", self.deleg, o.deleg));
        }
        if self.unbonding != o.unbonding {
            out.push("unbonding queue differs".into());
        }
        if self.rewards != o.rewards {
            out.push("pending rewards differ".into());
        }
        out
    }
}

pub fn panic_text(p: &Box<dyn std::any::Any + Send>) -> String {
    if let Some(s) = p.downcast_ref::<&str>() {
        s.to_string()
    } else if let Some(s) = p.downcast_ref::<String>() {
        s.clone()
    } else {
        "panic".to_string()
    }
}

pub fn mul_div_floor(a: u128, b: u128, c: u128) -> u128 {
    use cosmwasm_std::Uint256;
    let r = Uint256::from(a) * Uint256::from(b) / Uint256::from(c);
    Uint128::try_from(r).unwrap().u128()
}

/// Instantiate a contract (entry point called directly; instantiate is not a transaction the
/// properties talk about, but failures must not leave storage behind).
pub fn instantiate_with<F>(w: &mut World, addr: &str, kind: Kind, sender: &str, f: F) -> Result<(), String>
where
    F: FnOnce(DepsMut, Env, MessageInfo) -> Result<Response, String>,
{
    let mut st = Store::default();
    let api = MockApi::default();
    let env = w.env(addr);
    let r = {
        let wq = WQ { w, caller: addr.to_string() };
        let deps = DepsMut { storage: &mut st, api: &api, querier: QuerierWrapper::new(&wq) };
        let was = IN_TX.with(|f| f.replace(true));
        let r = catch_unwind(AssertUnwindSafe(|| f(deps, env, MessageInfo { sender: Addr::unchecked(sender), funds: vec![] })));
        IN_TX.with(|f| f.set(was));
        r
    };
    match r {
        Ok(Ok(_)) => {
            w.kinds.insert(addr.into(), kind);
            w.stores.insert(addr.into(), st);
            Ok(())
        }
        Ok(Err(e)) => Err(e),
        Err(_) => Err("panic in instantiate".into()),
    }
}

pub fn add_stub(w: &mut World, addr: &str, kind: Kind) {
    w.kinds.insert(addr.into(), kind);
    w.stores.insert(addr.into(), Store::default());
}
