//! Properties with their own drivers (not the generic full-world history runner).

use crate::driver::{run_sharded, HistoryReport};
use crate::mon::{decade, Out};
use crate::props::finish;
use crate::rng::Rng;
use basset_sei_validators_registry::common::{calculate_delegations, calculate_undelegations};
use basset_sei_validators_registry::registry::ValidatorResponse;
use cosmwasm_std::Uint128;
use serde_json::json;

pub fn ids() -> Vec<&'static str> {
    let mut v = vec!["C12"];
    v.extend(crate::matrix::ids());
    v
}

pub fn run(id: &str, tier: &str, seed: u64, threads: usize, histories: Option<u64>, replay: Option<&str>) -> Option<i32> {
    match id {
        "C12" => Some(run_c12(tier, seed, threads, histories, replay)),
        _ => crate::matrix::run(id, tier, seed, threads, histories, replay),
    }
}

// ------------------------------------------------------------------ C12

fn passes() -> Option<u64> {
    #[cfg(krp_verif)]
    {
        Some(basset_sei_validators_registry::common::verif_hook::UNDELEGATION_PASSES.with(|c| c.get()))
    }
    #[cfg(not(krp_verif))]
    {
        None
    }
}

fn gen_list(r: &mut Rng) -> (Vec<u128>, &'static str) {
    let n = match r.below(10) {
        0 => 0,
        1 => 1,
        2 => 2,
        3 => 64,
        _ => r.range(1, 64) as usize,
    };
    if n == 0 {
        return (vec![], "empty");
    }
    let cap: u128 = (u128::MAX >> 1) / (n as u128 + 1);
    let (mut v, pat): (Vec<u128>, &'static str) = match r.below(9) {
        0 => (vec![0; n], "zeros"),
        1 => (vec![1; n], "ones"),
        2 => {
            let x = r.log_uniform(cap);
            (vec![x; n], "equal")
        }
        3 => {
            let mut v = vec![r.range128(0, 5); n];
            let i = r.below(n as u64) as usize;
            v[i] = r.log_uniform(cap);
            (v, "one_giant")
        }
        4 => {
            let mut x = r.log_uniform(cap.min(1 << 100));
            let mut v = vec![];
            for _ in 0..n {
                v.push(x);
                x /= 2;
            }
            (v, "geometric")
        }
        5 => ((0..n).map(|_| r.range128(0, 3)).collect(), "tiny"),
        6 => ((0..n).map(|_| if r.chance(1, 2) { 0 } else { r.log_uniform(cap) }).collect(), "zeros_and_random"),
        7 => {
            let base = r.log_uniform(cap.min(1 << 90));
            ((0..n).map(|_| base + r.range128(0, 2)).collect(), "near_equal_ties")
        }
        _ => ((0..n).map(|_| r.log_uniform(cap)).collect(), "random"),
    };
    let order = match r.below(3) {
        0 => {
            v.sort();
            "asc"
        }
        1 => {
            v.sort();
            v.reverse();
            "desc"
        }
        _ => {
            r.shuffle(&mut v);
            "shuffled"
        }
    };
    let _ = order;
    (v, pat)
}

fn order_class(v: &[u128]) -> u8 {
    let asc = v.windows(2).all(|w| w[0] <= w[1]);
    let desc = v.windows(2).all(|w| w[0] >= w[1]);
    match (asc, desc) {
        (true, true) => 0,
        (true, false) => 1,
        (false, true) => 2,
        _ => 3,
    }
}

fn c12_batch(seed: u64, index: u64, per_batch: u64) -> HistoryReport {
    let mut r = Rng::derive(seed, 12, index);
    let mut out = Out::default();
    let mut log = vec![];
    let mut steps = 0;
    for case in 0..per_batch {
        let (ds, pat) = gen_list(&mut r);
        let n = ds.len() as u128;
        let t: u128 = ds.iter().sum();
        let vs: Vec<ValidatorResponse> = ds.iter().enumerate().map(|(i, d)| ValidatorResponse { total_delegated: Uint128::new(*d), address: format!("v{}", i) }).collect();
        let headroom = (u128::MAX >> 1) - t;
        // ---------------- delegation plan
        let amount = match r.below(8) {
            0 => 0,
            1 => 1,
            2 => t.min(headroom),
            3 => (t + 1).min(headroom),
            4 => n.min(headroom),
            5 => headroom,
            _ => r.log_uniform(headroom.max(1)).min(headroom),
        };
        steps += 1;
        let res = std::panic::catch_unwind(|| calculate_delegations(Uint128::new(amount), vs.as_slice()));
        let sample = json!({"fn": "calculate_delegations", "delegations": ds.iter().take(8).map(|x| x.to_string()).collect::<Vec<_>>(), "n": ds.len(), "amount": amount.to_string(), "pattern": pat});
        if log.len() < 6 {
            log.push(sample.clone());
        }
        let mut fail = |out: &mut Out, clause: &str, msg: String| {
            out.violation("C12", clause, format!("{} :: case {} of batch {}: delegations {:?}", msg, case, index, ds));
        };
        match res {
            // an abort is a failure: where failing is permitted (empty list) it is not judged
            Err(_) if ds.is_empty() => out.count("c12.delegation_empty_list_rejected"),
            Err(_) => fail(&mut out, "delegation_no_panic", format!("calculate_delegations({}) panicked", amount)),
            Ok(Err(e)) => {
                if !ds.is_empty() {
                    fail(&mut out, "delegation_fails_only_when_empty", format!("calculate_delegations({}) failed: {}", amount, e));
                } else {
                    out.count("c12.delegation_empty_list_rejected");
                }
            }
            Ok(Ok((rem, plan))) => {
                if ds.is_empty() {
                    // "fails only when" is an only-if: an empty plan for nothing to distribute is a plan; anything else
                    // cannot distribute the whole amount
                    if amount != 0 || !rem.is_zero() || !plan.is_empty() {
                        fail(&mut out, "delegation_distributes_everything", format!("empty list accepted for amount {} (remainder {}, plan {:?})", amount, rem, plan));
                    }
                    out.count("c12.delegation_empty_list_accepted_for_nothing");
                } else {
                    // a plan may leave trailing validators out (they get nothing); it may not name more than there are
                    let mut plan = plan;
                    while plan.len() < ds.len() {
                        plan.push(cosmwasm_std::Uint128::zero());
                    }
                    let sum: u128 = plan.iter().map(|x| x.u128()).sum();
                    if !rem.is_zero() || sum != amount || plan.len() != ds.len() {
                        fail(&mut out, "delegation_distributes_everything", format!("amount {} -> plan sums to {}, remainder {}", amount, sum, rem));
                    }
                    let total = t + amount;
                    let ceil_even = total / n + if total % n == 0 { 0 } else { 1 };
                    let mut skipped = 0;
                    for (d, p) in ds.iter().zip(plan.iter()) {
                        let p = p.u128();
                        if d * n > total {
                            skipped += 1;
                            if p != 0 {
                                fail(&mut out, "nothing_above_even_share", format!("amount {}: validator holding {} (> even share {}/{}) receives {}", amount, d, total, n, p));
                            }
                        }
                        if p > 0 && d + p > ceil_even {
                            fail(&mut out, "not_lifted_above_even_share", format!("amount {}: validator {} + {} exceeds ceil(even share) {}", amount, d, p, ceil_even));
                        }
                    }
                    out.count("c12.delegation_plans_checked");
                    if skipped > 0 {
                        out.count("c12.delegation_plans_with_skipped_validators");
                    }
                    out.distinct(&("deleg", ds.len().min(65), pat, order_class(&ds), decade(amount) / 3, skipped.min(3)));
                }
            }
        }
        // ---------------- undelegation plan
        let amount = match r.below(9) {
            0 => 0,
            1 => 1,
            2 => t,
            3 => t.saturating_add(1),
            4 => t.saturating_sub(1),
            5 => t / 2,
            6 => t.saturating_sub(n),
            _ => r.range128(0, t),
        };
        steps += 1;
        let vsc = vs.clone();
        let res = std::panic::catch_unwind(move || {
            let r = calculate_undelegations(Uint128::new(amount), vsc);
            (r, passes())
        });
        if log.len() < 12 {
            log.push(json!({"fn": "calculate_undelegations", "delegations": ds.iter().take(8).map(|x| x.to_string()).collect::<Vec<_>>(), "n": ds.len(), "amount": amount.to_string(), "pattern": pat}));
        }
        match res {
            Err(_) if ds.is_empty() => out.count("c12.undelegation_empty_list_rejected"),
            Err(_) if amount > t => out.count("c12.undelegation_above_total_rejected"),
            Err(_) => fail(&mut out, "undelegation_no_panic", format!("calculate_undelegations({}) panicked", amount)),
            Ok((Err(e), _)) => {
                let e = e.to_string();
                if e.contains("verif: pass limit") {
                    fail(&mut out, "undelegation_terminates", format!("calculate_undelegations({}) did not finish within the pass limit of the hook", amount));
                } else if !ds.is_empty() && amount <= t {
                    fail(&mut out, "undelegation_fails_only_when_impossible", format!("calculate_undelegations({}) of total {} failed: {}", amount, t, e));
                } else if ds.is_empty() {
                    out.count("c12.undelegation_empty_list_rejected");
                } else {
                    out.count("c12.undelegation_above_total_rejected");
                }
            }
            Ok((Ok(plan), np)) => {
                if ds.is_empty() || amount > t {
                    // only-if: accepting is fine as long as the plan is one - which it can only be for amount 0 on an
                    // empty list
                    let sum: u128 = plan.iter().map(|x| x.u128()).sum();
                    if !(ds.is_empty() && amount == 0 && sum == 0) {
                        fail(&mut out, "undelegation_removes_exactly", format!("calculate_undelegations({}) of total {} was accepted with a plan summing to {}", amount, t, sum));
                    }
                } else {
                    let mut plan = plan;
                    while plan.len() < ds.len() {
                        plan.push(cosmwasm_std::Uint128::zero());
                    }
                    let sum: u128 = plan.iter().map(|x| x.u128()).sum();
                    if sum != amount || plan.len() != ds.len() {
                        fail(&mut out, "undelegation_removes_exactly", format!("amount {} -> plan sums to {}", amount, sum));
                    }
                    let floor_even = (t - amount) / n;
                    for (d, p) in ds.iter().zip(plan.iter()) {
                        let p = p.u128();
                        if p > *d {
                            fail(&mut out, "undelegation_within_holdings", format!("amount {}: takes {} from a validator holding {}", amount, p, d));
                        } else if p > 0 && d - p < floor_even {
                            fail(&mut out, "not_pushed_below_even_share", format!("amount {}: validator {} - {} falls below floor(even share) {}", amount, d, p, floor_even));
                        }
                    }
                    match np {
                        Some(k) => {
                            // "terminates": how many passes it takes is not stated (counted, not judged); the hook's
                            // own limit decides non-termination
                            if k > n as u64 + 1 {
                                out.count("c12.undelegation_more_passes_than_validators");
                            }
                            out.count("c12.undelegation_pass_counts_observed");
                            if k >= 2 {
                                out.count("c12.undelegation_multi_pass");
                            }
                        }
                        None => out.inconclusive.push("pass counter hook not compiled in (build without --cfg krp_verif)".into()),
                    }
                    out.count("c12.undelegation_plans_checked");
                    out.distinct(&("undeleg", ds.len().min(65), pat, order_class(&ds), decade(amount) / 3, amount == t, amount == 0));
                }
            }
        }
        if !out.violations.is_empty() {
            break;
        }
    }
    HistoryReport { index, out, steps, ok_steps: steps, cfg: format!("C12 batch {} of {} generated inputs", index, per_batch), log, op_kinds: Default::default() }
}

const INSITU_BASE: u64 = 500_000_000;

fn run_c12(tier: &str, seed: u64, threads: usize, histories: Option<u64>, replay: Option<&str>) -> i32 {
    let t0 = std::time::Instant::now();
    let per_batch = 2_000u64;
    let n = histories.unwrap_or(if tier == "quick" { 250 } else { 20_000 });
    let mut seed = seed;
    let sum = if let Some(path) = replay {
        let v: serde_json::Value = match std::fs::read_to_string(path).ok().and_then(|s| serde_json::from_str(&s).ok()) {
            Some(v) => v,
            None => return 2,
        };
        seed = v["seed"].as_u64().unwrap_or(seed);
        let idx = v["history_index"].as_u64().unwrap_or(0);
        if idx >= INSITU_BASE {
            let spec = crate::props::spec_c12_insitu();
            run_sharded(1, 1, |_| crate::driver::run_full_history(&spec, seed, 12, idx, false))
        } else {
            run_sharded(1, 1, |_| c12_batch(seed, idx, per_batch))
        }
    } else {
        let mut sum = run_sharded(n, threads, |i| c12_batch(seed, i, per_batch));
        // in situ: the plans the hub and the registry compute inside real transactions of full-world histories
        if sum.first_violation.is_none() {
            let spec = crate::props::spec_c12_insitu();
            let n2 = if tier == "quick" { 150 } else { 12_000 };
            let s2 = run_sharded(n2, threads, |i| crate::driver::run_full_history(&spec, seed, 12, INSITU_BASE + i, false));
            sum.absorb(s2);
        }
        sum
    };
    let required: &[(&str, u64)] = &[
        ("c12.insitu_delegation_plans", 1),
        ("c12.insitu_undelegation_plans", 1),
        ("c12.delegation_plans_checked", 1),
        ("c12.delegation_plans_with_skipped_validators", 1),
        ("c12.delegation_empty_list_rejected", 1),
        ("c12.undelegation_plans_checked", 1),
        ("c12.undelegation_above_total_rejected", 1),
        ("c12.undelegation_empty_list_rejected", 1),
        ("c12.undelegation_pass_counts_observed", 1),
    ];
    finish(
        "C12",
        tier,
        seed,
        sum,
        required,
        "direct calls of the two pub planning functions on generated validator lists (n = 0..64; zeros, ones, equal, one giant, geometric, tiny, ties, random up to 2^127/n; ascending / descending / shuffled) and amounts (0, 1, T, T+-1, n, whole headroom, log-uniform); distinct = (function, n, pattern, order class, magnitude class of amount, boundary flags); plus, in situ, every plan computed inside a real bond / unbond transaction of full-world histories re-checked from the emitted staking messages",
        t0,
        replay.is_some(),
        json!({"inputs_per_batch": per_batch}),
    )
}
