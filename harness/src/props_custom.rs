//! Properties with their own drivers (not the generic full-world history runner).

pub fn ids() -> Vec<&'static str> {
    vec![]
}

pub fn run(_id: &str, _tier: &str, _seed: u64, _threads: usize, _histories: Option<u64>, _replay: Option<&str>) -> Option<i32> {
    None
}
