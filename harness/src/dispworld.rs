//! Dispatcher world (C17): the real dispatcher driven directly by the hub address, with arbitrary holdings,
//! bonded amounts, oracle prices and keeper rates. The hub, reward contract and registry behind it are the real ones.

use crate::chain::World;
use crate::gen::GenState;
use crate::ops::*;
use crate::rng::Rng;
use crate::setup::*;
use crate::snap::Snap;

fn pick_amount(r: &mut Rng, cap: u128) -> u128 {
    let v = match r.below(10) {
        0 => 0,
        1 => 1,
        2 => 2,
        3 => r.range128(1, 30),
        4 => 10u128.pow(r.range(0, 18) as u32),
        5 => cap,
        _ => r.log_uniform(cap.max(1)),
    };
    v.min(cap)
}

pub fn steer(r: &mut Rng, s: &Snap, _cfg: &Cfg, g: &mut GenState, w: &World) -> Option<Op> {
    // phases cycle: fund (1-3 ops), maybe price / rate change, swap, dispatch
    let phase = g.step % 8;
    g.step += 1;
    let p = w.price.atomics().u128();
    // envelope: value of any single amount <= 1e18 in both coins; hub total delegation <= 1e18
    let room = E18.saturating_sub(s.total_delegated + 1_000_000);
    // what the dispatcher already holds (a failed dispatch leaves it there), valued in both coins
    let held_kusd = s.bal(DISPATCHER, KUSD) + crate::mon::mul_rate(s.bal(DISPATCHER, USEI), p) + 8 * s.bal(DISPATCHER, UATOM);
    let held_usei = s.bal(DISPATCHER, USEI) + crate::mon::div_rate(s.bal(DISPATCHER, KUSD) + 8 * s.bal(DISPATCHER, UATOM), p.max(1));
    let room = room.saturating_sub(held_usei);
    let cap_usei = room.min(crate::mon::div_rate(E18.saturating_sub(held_kusd), p.max(1))).min(E18.saturating_sub(held_usei));
    let cap_kusd = E18.saturating_sub(held_kusd).min(crate::mon::mul_rate(room, p));
    Some(match phase {
        0 | 1 | 2 => {
            let (denom, cap) = match r.below(5) {
                0 | 1 => (USEI, cap_usei),
                2 | 3 => (KUSD, cap_kusd),
                _ => (UATOM, cap_kusd / 8),
            };
            let a = pick_amount(r, cap);
            if a == 0 {
                return Some(Op::Advance { dt: 1 });
            }
            Op::Donate { to: DISPATCHER.into(), denom: denom.into(), amount: a }
        }
        3 => {
            if s.bal(DISPATCHER, USEI) + s.bal(DISPATCHER, KUSD) + s.bal(DISPATCHER, UATOM) > 0 || r.chance(1, 2) {
                // the oracle price may only move while the dispatcher is empty-ish, to keep amounts inside the envelope
                return Some(Op::Advance { dt: 1 });
            }
            let prices = ["1", "1.5", "0.75", "0.000001", "1000000", "3.141592653589793238", "0.02", "42", "0.00037", "123456.789"];
            Op::SetPrice { price: r.pick(&prices).to_string() }
        }
        4 => {
            let rates = ["0", "0.000000000000000001", "0.05", "0.5", "0.999999999999999999", "1", "1.000000000000000001", "2", "0.25"];
            raw(
                OWNER,
                DISPATCHER,
                &crate::setup::mk::<basset_sei_rewards_dispatcher::msg::ExecuteMsg>(serde_json::json!({"update_config": {"krp_keeper_rate": dec(r.pick(&rates))}})),
            )
        }
        5 => {
            if r.chance(1, 3) {
                let add = r.chance(1, 2);
                return Some(raw(OWNER, DISPATCHER, &basset_sei_rewards_dispatcher::msg::ExecuteMsg::UpdateSwapDenom { swap_denom: UATOM.into(), is_add: add }));
            }
            Op::Advance { dt: 1 }
        }
        6 => {
            let (bb, bs) = match r.below(7) {
                0 => (0, r.amount(E18)),
                1 => (r.amount(E18), 0),
                2 => (1, E18),
                3 => (E18, 1),
                4 => {
                    let x = r.amount(E18);
                    (x, x)
                }
                _ => (r.amount(E18), r.amount(E18)),
            };
            raw(HUB, DISPATCHER, &basset_sei_rewards_dispatcher::msg::ExecuteMsg::SwapToRewardDenom { bsei_total_bonded: u(bb), stsei_total_bonded: u(bs) })
        }
        _ => raw(HUB, DISPATCHER, &basset_sei_rewards_dispatcher::msg::ExecuteMsg::DispatchRewards {}),
    })
}
