//! Deterministic PRNG (xoshiro256**, splitmix64 seeding). One generator per history,
//! so a history is a pure function of (seed, property, tier, index).

#[derive(Clone, Debug)]
pub struct Rng {
    s: [u64; 4],
}

fn splitmix(x: &mut u64) -> u64 {
    *x = x.wrapping_add(0x9E3779B97F4A7C15);
    let mut z = *x;
    z = (z ^ (z >> 30)).wrapping_mul(0xBF58476D1CE4E5B9);
    z = (z ^ (z >> 27)).wrapping_mul(0x94D049BB133111EB);
    z ^ (z >> 31)
}

impl Rng {
    pub fn new(seed: u64) -> Rng {
        let mut x = seed;
        let s = [splitmix(&mut x), splitmix(&mut x), splitmix(&mut x), splitmix(&mut x)];
        Rng { s }
    }
    /// Derive an independent stream (used for per-history seeding).
    pub fn derive(seed: u64, a: u64, b: u64) -> Rng {
        let mut x = seed ^ a.wrapping_mul(0xD6E8FEB86659FD93) ^ b.wrapping_mul(0xA0761D6478BD642F);
        let _ = splitmix(&mut x);
        Rng::new(splitmix(&mut x))
    }
    pub fn next_u64(&mut self) -> u64 {
        let r = self.s[1].wrapping_mul(5).rotate_left(7).wrapping_mul(9);
        let t = self.s[1] << 17;
        self.s[2] ^= self.s[0];
        self.s[3] ^= self.s[1];
        self.s[1] ^= self.s[2];
        self.s[0] ^= self.s[3];
        self.s[2] ^= t;
        self.s[3] = self.s[3].rotate_left(45);
        r
    }
    pub fn next_u128(&mut self) -> u128 {
        ((self.next_u64() as u128) << 64) | self.next_u64() as u128
    }
    /// uniform in [0, n)
    pub fn below(&mut self, n: u64) -> u64 {
        if n == 0 {
            return 0;
        }
        self.next_u64() % n
    }
    pub fn below128(&mut self, n: u128) -> u128 {
        if n == 0 {
            return 0;
        }
        self.next_u128() % n
    }
    /// uniform in [lo, hi] inclusive
    pub fn range(&mut self, lo: u64, hi: u64) -> u64 {
        if hi <= lo {
            return lo;
        }
        lo + self.below(hi - lo + 1)
    }
    pub fn range128(&mut self, lo: u128, hi: u128) -> u128 {
        if hi <= lo {
            return lo;
        }
        lo + self.below128(hi - lo + 1)
    }
    pub fn chance(&mut self, num: u64, den: u64) -> bool {
        self.below(den) < num
    }
    pub fn pick<'a, T>(&mut self, v: &'a [T]) -> &'a T {
        &v[self.below(v.len() as u64) as usize]
    }
    pub fn pick_weighted(&mut self, w: &[u32]) -> usize {
        let total: u64 = w.iter().map(|x| *x as u64).sum();
        if total == 0 {
            return 0;
        }
        let mut r = self.below(total);
        for (i, x) in w.iter().enumerate() {
            if r < *x as u64 {
                return i;
            }
            r -= *x as u64;
        }
        w.len() - 1
    }
    /// log-uniform in [1, max]
    pub fn log_uniform(&mut self, max: u128) -> u128 {
        if max <= 1 {
            return 1;
        }
        let bits = 128 - max.leading_zeros() as u64;
        let b = self.range(1, bits);
        let hi = if b >= 128 { u128::MAX } else { (1u128 << b) - 1 };
        let lo = 1u128 << (b - 1);
        let v = self.range128(lo, hi);
        v.min(max).max(1)
    }
    /// boundary-biased amount in [1, max]
    pub fn amount(&mut self, max: u128) -> u128 {
        if max <= 1 {
            return 1;
        }
        match self.below(12) {
            0 => 1,
            1 => 2.min(max),
            2 => max,
            3 => max - 1,
            4 => {
                let k = self.range(0, 18) as u32;
                10u128.pow(k).min(max)
            }
            5 => (max / 2).max(1),
            6 => self.range128(1, 10.min(max)),
            _ => self.log_uniform(max),
        }
    }
    pub fn shuffle<T>(&mut self, v: &mut [T]) {
        for i in (1..v.len()).rev() {
            let j = self.below(i as u64 + 1) as usize;
            v.swap(i, j);
        }
    }
}
