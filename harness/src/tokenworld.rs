//! Token world (C18): both tokens instantiated with arbitrary initial balances (repeated addresses, zero
//! amounts, many rows), exercised by arbitrary principals. The bSei reward hook points at the dummy contract
//! so that balances the reward contract never heard of stay transferable.

use crate::chain::World;
use crate::gen::GenState;
use crate::ops::*;
use crate::rng::Rng;
use crate::setup::*;
use crate::snap::Snap;
use cw20::Cw20Coin;

fn initial(r: &mut Rng, us: &[String]) -> Vec<Cw20Coin> {
    let n = match r.below(6) {
        0 => 0,
        1 => 1,
        2 => r.range(2, 5),
        3 => r.range(5, 40),
        _ => r.range(1, 8),
    };
    let mut v = vec![];
    for _ in 0..n {
        let a = if r.chance(1, 3) && !v.is_empty() {
            // repeat an earlier address (possibly in another case)
            let prev: &Cw20Coin = r.pick(&v);
            if r.chance(1, 4) { prev.address.to_uppercase() } else { prev.address.clone() }
        } else if r.chance(1, 6) {
            format!("acct{}", r.range(0, 60))
        } else {
            r.pick(us).clone()
        };
        let amount = match r.below(5) {
            0 => 0,
            1 => 1,
            _ => r.amount(E18 / 64),
        };
        v.push(Cw20Coin { address: a, amount: u(amount) });
    }
    v
}

pub fn build(cfg: &Cfg, r: &mut Rng) -> Result<World, String> {
    let us: Vec<String> = USERS[..cfg.n_users].iter().map(|s| s.to_string()).collect();
    // cw20-base rejects duplicates / non-normalised addresses: retry a few times so that most worlds get built,
    // the rejected instantiate messages are part of the exploration too
    for _ in 0..6 {
        let o = WorldOpts { bsei_initial: initial(r, &us), stsei_initial: initial(r, &us), reward_is_dummy: true, ..Default::default() };
        match build_world_with(cfg, &o) {
            Ok(w) => return Ok(w),
            Err(_) => continue,
        }
    }
    // last resorts: a bSei list that may repeat addresses (the legacy token as shipped adds them up), then - for a token
    // that refuses repeats - the same list without them
    let last = initial(r, &us);
    match build_world_with(cfg, &WorldOpts { bsei_initial: last.clone(), stsei_initial: vec![], reward_is_dummy: true, ..Default::default() }) {
        Ok(w) => Ok(w),
        Err(_) => {
            let mut seen = std::collections::BTreeSet::new();
            let unique: Vec<Cw20Coin> = last.into_iter().filter(|c| seen.insert(c.address.to_lowercase())).collect();
            build_world_with(cfg, &WorldOpts { bsei_initial: unique, stsei_initial: vec![], reward_is_dummy: true, ..Default::default() })
        }
    }
}

pub fn steer(r: &mut Rng, s: &Snap, cfg: &Cfg, _g: &mut GenState, _w: &World) -> Option<Op> {
    let us: Vec<String> = USERS[..cfg.n_users].iter().map(|x| x.to_string()).collect();
    let tok = if r.chance(1, 2) { Tok::B } else { Tok::St };
    let holders: Vec<(String, u128)> = s.tok(tok).balances.iter().filter(|(_, b)| **b > 0).map(|(a, b)| (a.clone(), *b)).collect();
    let any = |r: &mut Rng| -> String {
        if r.chance(1, 8) {
            HUB.to_string()
        } else {
            r.pick(&us).clone()
        }
    };
    let (owner, bal) = if holders.is_empty() { (any(r), 0) } else { r.pick(&holders).clone() };
    let amt = |r: &mut Rng, max: u128| -> u128 {
        if r.chance(1, 25) {
            return max + 1;
        }
        r.amount(max.max(1))
    };
    let exp = |r: &mut Rng| match r.below(7) {
        0 => Exp::Never,
        1 => Exp::AtHeight(s.height + r.range(0, 4)),
        2 => Exp::AtTime(s.time + r.range(0, 60)),
        3 => Exp::AtHeight(s.height.saturating_sub(1)),
        _ => Exp::None,
    };
    let w = [10u32, 12, 4, 10, 4, 8, 5, 4, 4, 3, 3, 6, 3];
    Some(match r.pick_weighted(&w) {
        0 => {
            let room = E18.saturating_sub(s.tok(tok).supply + 1);
            Op::Mint { tok, sender: HUB.into(), to: any(r), amount: r.amount(room.max(1)) }
        }
        1 => Op::Transfer { tok, from: owner, to: any(r), amount: amt(r, bal) },
        2 => Op::SendDummy { tok, from: owner, amount: amt(r, bal) },
        3 => Op::IncreaseAllowance { tok, owner, spender: any(r), amount: amt(r, bal.max(10)), expires: exp(r) },
        4 => Op::DecreaseAllowance { tok, owner, spender: any(r), amount: amt(r, bal.max(10)), expires: exp(r) },
        5 => Op::TransferFrom { tok, spender: any(r), owner, to: any(r), amount: amt(r, bal) },
        6 => Op::BurnFrom { tok, spender: any(r), owner, amount: amt(r, (bal / 3).max(1)) },
        7 => Op::Burn { tok, user: if r.chance(1, 2) { HUB.into() } else { any(r) }, amount: amt(r, s.tok(tok).balances.get(HUB).cloned().unwrap_or(0).max(1)) },
        8 => Op::Mint { tok, sender: any(r), to: any(r), amount: r.amount(1_000_000) },
        9 => Op::Unbond { user: any(r), tok, amount: amt(r, bal), owner: Some(owner) },
        10 => Op::Convert { user: any(r), tok, amount: amt(r, bal), owner: Some(owner) },
        11 => Op::Advance { dt: r.range(0, 30) },
        _ => Op::Transfer { tok, from: owner, to: HUB.into(), amount: amt(r, bal) },
    })
}
