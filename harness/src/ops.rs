//! Operations (client transactions and environment moves) and how they are applied to a world.

use crate::chain::*;
use crate::setup::*;
use basset::hub as h;
use cosmwasm_std::{to_json_binary, Binary, Coin, Decimal};
use cw20::Cw20ExecuteMsg;
use serde::{Deserialize, Serialize};

#[derive(Clone, Copy, Debug, PartialEq, Eq, Serialize, Deserialize, PartialOrd, Ord, Hash)]
pub enum Tok {
    B,
    St,
}

impl Tok {
    pub fn addr(&self) -> &'static str {
        match self {
            Tok::B => BSEI,
            Tok::St => STSEI,
        }
    }
}

#[derive(Clone, Debug, PartialEq, Serialize, Deserialize)]
pub enum Op {
    // ---- user operations on the hub
    Bond { user: String, amount: u128 },
    BondStSei { user: String, amount: u128 },
    /// `owner == None`: Send by `user`; `Some(o)`: SendFrom by spender `user` out of `o`'s balance
    Unbond { user: String, tok: Tok, amount: u128, owner: Option<String> },
    Convert { user: String, tok: Tok, amount: u128, owner: Option<String> },
    Withdraw { user: String },
    CheckSlashing { user: String },
    UpdateGlobalIndex { sender: String },
    // ---- token operations
    Transfer { tok: Tok, from: String, to: String, amount: u128 },
    SendDummy { tok: Tok, from: String, amount: u128 },
    IncreaseAllowance { tok: Tok, owner: String, spender: String, amount: u128, expires: Exp },
    DecreaseAllowance { tok: Tok, owner: String, spender: String, amount: u128, expires: Exp },
    TransferFrom { tok: Tok, spender: String, owner: String, to: String, amount: u128 },
    BurnFrom { tok: Tok, spender: String, owner: String, amount: u128 },
    Burn { tok: Tok, user: String, amount: u128 },
    Mint { tok: Tok, sender: String, to: String, amount: u128 },
    // ---- reward contract
    ClaimRewards { user: String, recipient: Option<String> },
    // ---- registry
    AddValidator { sender: String, validator: String },
    RemoveValidator { sender: String, validator: String },
    /// the registry's public `Redelegations` message: manual completion of a removal whose redelegation was locked
    Redelegations { sender: String, validator: String },
    // ---- owner
    UpdateParams { sender: String, epoch: Option<u64>, fee: Option<String>, threshold: Option<String>, paused: Option<bool> },
    // ---- arbitrary message
    Raw { sender: String, contract: String, msg: String, funds: Vec<(u128, String)> },
    // ---- environment
    Advance { dt: u64 },
    Slash { validator: String, num: u128, den: u128, unbonding: bool },
    Accrue { validator: String, denom: String, amount: u128 },
    Donate { to: String, denom: String, amount: u128 },
    SetRedelegateBlocked { blocked: bool },
    SetFaults { swap: u8, oracle: u8 },
    SetPrice { price: String },
}

#[derive(Clone, Copy, Debug, PartialEq, Serialize, Deserialize)]
pub enum Exp {
    None,
    Never,
    AtHeight(u64),
    AtTime(u64),
}

impl Exp {
    pub fn to_cw(&self) -> Option<cw20::Expiration> {
        match self {
            Exp::None => None,
            Exp::Never => Some(cw20::Expiration::Never {}),
            Exp::AtHeight(h) => Some(cw20::Expiration::AtHeight(*h)),
            Exp::AtTime(t) => Some(cw20::Expiration::AtTime(cosmwasm_std::Timestamp::from_seconds(*t))),
        }
    }
}

pub fn fault_of(i: u8) -> Fault {
    ALL_FAULTS[(i as usize) % ALL_FAULTS.len()]
}

#[derive(Clone, Debug)]
pub struct StepResult {
    /// None for environment moves
    pub tx: Option<TxResult>,
    pub env_events: Vec<Ev>,
    /// (bonded loss, unbonding loss) of a Slash move
    pub slash_loss: (u128, u128),
}

impl StepResult {
    pub fn ok(&self) -> bool {
        self.tx.as_ref().map(|t| t.ok).unwrap_or(true)
    }
    pub fn trace(&self) -> Option<&Trace> {
        self.tx.as_ref().map(|t| &t.trace)
    }
}

pub fn hook(m: &h::Cw20HookMsg) -> Binary {
    to_json_binary(m).unwrap()
}

impl Op {
    pub fn kind(&self) -> &'static str {
        match self {
            Op::Bond { .. } => "bond",
            Op::BondStSei { .. } => "bond_stsei",
            Op::Unbond { tok: Tok::B, .. } => "unbond_bsei",
            Op::Unbond { tok: Tok::St, .. } => "unbond_stsei",
            Op::Convert { tok: Tok::B, .. } => "convert_bsei_stsei",
            Op::Convert { tok: Tok::St, .. } => "convert_stsei_bsei",
            Op::Withdraw { .. } => "withdraw",
            Op::CheckSlashing { .. } => "check_slashing",
            Op::UpdateGlobalIndex { .. } => "update_global_index",
            Op::Transfer { .. } => "transfer",
            Op::SendDummy { .. } => "send_dummy",
            Op::IncreaseAllowance { .. } => "increase_allowance",
            Op::DecreaseAllowance { .. } => "decrease_allowance",
            Op::TransferFrom { .. } => "transfer_from",
            Op::BurnFrom { .. } => "burn_from",
            Op::Burn { .. } => "burn",
            Op::Mint { .. } => "mint",
            Op::ClaimRewards { .. } => "claim_rewards",
            Op::AddValidator { .. } => "add_validator",
            Op::RemoveValidator { .. } => "remove_validator",
            Op::Redelegations { .. } => "redelegations",
            Op::UpdateParams { .. } => "update_params",
            Op::Raw { .. } => "raw",
            Op::Advance { .. } => "advance",
            Op::Slash { .. } => "slash",
            Op::Accrue { .. } => "accrue",
            Op::Donate { .. } => "donate",
            Op::SetRedelegateBlocked { .. } => "set_redelegate_blocked",
            Op::SetFaults { .. } => "set_faults",
            Op::SetPrice { .. } => "set_price",
        }
    }

    pub fn is_env(&self) -> bool {
        matches!(
            self,
            Op::Advance { .. }
                | Op::Slash { .. }
                | Op::Accrue { .. }
                | Op::Donate { .. }
                | Op::SetRedelegateBlocked { .. }
                | Op::SetFaults { .. }
                | Op::SetPrice { .. }
        )
    }

    /// (sender, contract, msg, funds) for client transactions
    pub fn to_tx(&self) -> Option<(String, String, Binary, Vec<Coin>)> {
        let none: Vec<Coin> = vec![];
        let b = |m: &Cw20ExecuteMsg| to_json_binary(m).unwrap();
        Some(match self {
            Op::Bond { user, amount } => (
                user.clone(),
                HUB.into(),
                to_json_binary(&h::ExecuteMsg::Bond {}).unwrap(),
                vec![coin(*amount, USEI)],
            ),
            Op::BondStSei { user, amount } => (
                user.clone(),
                HUB.into(),
                to_json_binary(&h::ExecuteMsg::BondForStSei {}).unwrap(),
                vec![coin(*amount, USEI)],
            ),
            Op::Unbond { user, tok, amount, owner } => {
                let hm = hook(&h::Cw20HookMsg::Unbond {});
                let m = match owner {
                    None => Cw20ExecuteMsg::Send { contract: HUB.into(), amount: u(*amount), msg: hm },
                    Some(o) => Cw20ExecuteMsg::SendFrom { owner: o.clone(), contract: HUB.into(), amount: u(*amount), msg: hm },
                };
                (user.clone(), tok.addr().into(), b(&m), none)
            }
            Op::Convert { user, tok, amount, owner } => {
                let hm = hook(&h::Cw20HookMsg::Convert {});
                let m = match owner {
                    None => Cw20ExecuteMsg::Send { contract: HUB.into(), amount: u(*amount), msg: hm },
                    Some(o) => Cw20ExecuteMsg::SendFrom { owner: o.clone(), contract: HUB.into(), amount: u(*amount), msg: hm },
                };
                (user.clone(), tok.addr().into(), b(&m), none)
            }
            Op::Withdraw { user } => (
                user.clone(),
                HUB.into(),
                to_json_binary(&h::ExecuteMsg::WithdrawUnbonded {}).unwrap(),
                none,
            ),
            Op::CheckSlashing { user } => (
                user.clone(),
                HUB.into(),
                to_json_binary(&h::ExecuteMsg::CheckSlashing {}).unwrap(),
                none,
            ),
            Op::UpdateGlobalIndex { sender } => (
                sender.clone(),
                HUB.into(),
                to_json_binary(&h::ExecuteMsg::UpdateGlobalIndex { airdrop_hooks: None }).unwrap(),
                none,
            ),
            Op::Transfer { tok, from, to, amount } => (
                from.clone(),
                tok.addr().into(),
                b(&Cw20ExecuteMsg::Transfer { recipient: to.clone(), amount: u(*amount) }),
                none,
            ),
            Op::SendDummy { tok, from, amount } => (
                from.clone(),
                tok.addr().into(),
                b(&Cw20ExecuteMsg::Send { contract: DUMMY.into(), amount: u(*amount), msg: Binary::from(b"{}".to_vec()) }),
                none,
            ),
            Op::IncreaseAllowance { tok, owner, spender, amount, expires } => (
                owner.clone(),
                tok.addr().into(),
                b(&Cw20ExecuteMsg::IncreaseAllowance { spender: spender.clone(), amount: u(*amount), expires: expires.to_cw() }),
                none,
            ),
            Op::DecreaseAllowance { tok, owner, spender, amount, expires } => (
                owner.clone(),
                tok.addr().into(),
                b(&Cw20ExecuteMsg::DecreaseAllowance { spender: spender.clone(), amount: u(*amount), expires: expires.to_cw() }),
                none,
            ),
            Op::TransferFrom { tok, spender, owner, to, amount } => (
                spender.clone(),
                tok.addr().into(),
                b(&Cw20ExecuteMsg::TransferFrom { owner: owner.clone(), recipient: to.clone(), amount: u(*amount) }),
                none,
            ),
            Op::BurnFrom { tok, spender, owner, amount } => (
                spender.clone(),
                tok.addr().into(),
                b(&Cw20ExecuteMsg::BurnFrom { owner: owner.clone(), amount: u(*amount) }),
                none,
            ),
            Op::Burn { tok, user, amount } => (
                user.clone(),
                tok.addr().into(),
                b(&Cw20ExecuteMsg::Burn { amount: u(*amount) }),
                none,
            ),
            Op::Mint { tok, sender, to, amount } => (
                sender.clone(),
                tok.addr().into(),
                b(&Cw20ExecuteMsg::Mint { recipient: to.clone(), amount: u(*amount) }),
                none,
            ),
            Op::ClaimRewards { user, recipient } => (
                user.clone(),
                REWARD.into(),
                to_json_binary(&basset::reward::ExecuteMsg::ClaimRewards { recipient: recipient.clone() }).unwrap(),
                none,
            ),
            Op::AddValidator { sender, validator } => (
                sender.clone(),
                REGISTRY.into(),
                cosmwasm_std::Binary::from(serde_json::json!({"add_validator": {"validator": {"address": validator}}}).to_string().into_bytes()),
                none,
            ),
            Op::RemoveValidator { sender, validator } => (
                sender.clone(),
                REGISTRY.into(),
                to_json_binary(&basset_sei_validators_registry::msg::ExecuteMsg::RemoveValidator { address: validator.clone() }).unwrap(),
                none,
            ),
            Op::Redelegations { sender, validator } => (
                sender.clone(),
                REGISTRY.into(),
                to_json_binary(&basset_sei_validators_registry::msg::ExecuteMsg::Redelegations { address: validator.clone() }).unwrap(),
                none,
            ),
            Op::UpdateParams { sender, epoch, fee, threshold, paused } => (
                sender.clone(),
                HUB.into(),
                Binary::from(
                    serde_json::json!({"update_params": {
                        "epoch_period": epoch,
                        "unbonding_period": null,
                        "peg_recovery_fee": fee.as_ref().map(|s| dec(s)),
                        "er_threshold": threshold.as_ref().map(|s| dec(s)),
                        "paused": paused,
                        "reward_denom": null,
                    }})
                    .to_string()
                    .into_bytes(),
                ),
                none,
            ),
            Op::Raw { sender, contract, msg, funds } => (
                sender.clone(),
                contract.clone(),
                Binary::from(msg.as_bytes().to_vec()),
                funds.iter().map(|(a, d)| coin(*a, d)).collect(),
            ),
            _ => return None,
        })
    }

    pub fn apply(&self, w: &mut World) -> StepResult {
        if let Some((s, c, m, f)) = self.to_tx() {
            let r = w.tx(&s, &c, &m, &f);
            return StepResult { tx: Some(r), env_events: vec![], slash_loss: (0, 0) };
        }
        let mut res = StepResult { tx: None, env_events: vec![], slash_loss: (0, 0) };
        match self {
            Op::Advance { dt } => res.env_events = w.advance(*dt),
            Op::Slash { validator, num, den, unbonding } => {
                res.slash_loss = w.slash(validator, *num, *den, *unbonding);
            }
            Op::Accrue { validator, denom, amount } => {
                w.accrue(HUB, validator, denom, *amount);
            }
            Op::Donate { to, denom, amount } => w.mint_coins(to, denom, *amount),
            Op::SetRedelegateBlocked { blocked } => w.redelegate_blocked = *blocked,
            Op::SetFaults { swap, oracle } => {
                w.swap_fault = fault_of(*swap);
                w.oracle_fault = fault_of(*oracle);
            }
            Op::SetPrice { price } => w.price = dec(price),
            _ => unreachable!(),
        }
        res
    }
}

pub fn raw<M: serde::Serialize>(sender: &str, contract: &str, m: &M) -> Op {
    Op::Raw {
        sender: sender.into(),
        contract: contract.into(),
        msg: String::from_utf8(to_json_binary(m).unwrap().to_vec()).unwrap(),
        funds: vec![],
    }
}

pub fn decimal_atomics(d: Decimal) -> u128 {
    d.atomics().u128()
}
