//! Monitor framework: step context, findings, per-run accumulators.

use crate::chain::World;
use crate::ops::{Op, StepResult};
use crate::rng::Rng;
use crate::setup::Cfg;
use crate::snap::Snap;
use cosmwasm_std::{Uint256, Uint512};
use std::collections::{BTreeMap, BTreeSet};
use std::hash::{Hash, Hasher};

pub use crate::setup::E18;

/// set by the CLI: the thorough tier widens the relational explorations (more withdrawal orders, denser dry runs)
pub static THOROUGH: std::sync::atomic::AtomicBool = std::sync::atomic::AtomicBool::new(false);

pub fn thorough() -> bool {
    THOROUGH.load(std::sync::atomic::Ordering::Relaxed)
}

#[derive(Clone, Debug)]
pub struct Violation {
    pub property: String,
    pub clause: String,
    pub msg: String,
    /// narrow signature of a recorded known finding this hit matches exactly, if any
    pub known_sig: Option<String>,
}

pub struct Ctx<'a> {
    pub cfg: &'a Cfg,
    pub step: usize,
    pub op: &'a Op,
    pub res: &'a StepResult,
    pub pre: &'a Snap,
    pub post: &'a Snap,
    pub w_pre: &'a World,
    pub w_post: &'a World,
}

#[derive(Default, Clone, Debug)]
pub struct Out {
    pub violations: Vec<Violation>,
    pub counters: BTreeMap<String, u64>,
    pub distinct: BTreeSet<u64>,
    pub notes: Vec<String>,
    pub inconclusive: Vec<String>,
}

impl Out {
    pub fn count(&mut self, k: &str) {
        *self.counters.entry(k.to_string()).or_insert(0) += 1;
    }
    pub fn add(&mut self, k: &str, n: u64) {
        *self.counters.entry(k.to_string()).or_insert(0) += n;
    }
    pub fn distinct<T: Hash>(&mut self, t: &T) {
        let mut h = std::collections::hash_map::DefaultHasher::new();
        t.hash(&mut h);
        self.distinct.insert(h.finish());
    }
    pub fn violation(&mut self, property: &str, clause: &str, msg: String) {
        // KRPMON_MUTE=clause,clause (validation runs only, never set by ./check): drop the named clauses so that
        // the clauses they normally shadow can be shown to fire on a mutant
        if let Some(m) = std::env::var_os("KRPMON_MUTE") {
            if m.to_string_lossy().split(',').any(|x| x == clause) {
                self.count(&format!("muted.{}", clause));
                return;
            }
        }
        self.violations.push(Violation { property: property.into(), clause: clause.into(), msg, known_sig: None });
    }
    pub fn known(&mut self, property: &str, clause: &str, sig: &str, msg: String) {
        self.violations.push(Violation { property: property.into(), clause: clause.into(), msg, known_sig: Some(sig.into()) });
    }
    pub fn merge(&mut self, o: Out) {
        self.violations.extend(o.violations);
        for (k, v) in o.counters {
            *self.counters.entry(k).or_insert(0) += v;
        }
        self.distinct.extend(o.distinct);
        if self.notes.len() < 50 {
            self.notes.extend(o.notes);
        }
        self.inconclusive.extend(o.inconclusive);
    }
}

pub trait Monitor {
    fn on_start(&mut self, _w: &World, _s: &Snap, _cfg: &Cfg, _out: &mut Out) {}
    fn on_step(&mut self, c: &Ctx, rng: &mut Rng, out: &mut Out);
    fn on_end(&mut self, _w: &World, _s: &Snap, _cfg: &Cfg, _rng: &mut Rng, _out: &mut Out) {}
}

// ---------------------------------------------------------------- exact arithmetic helpers
// (written from the property text on plain integers; independent of Decimal / bigint::U256 / math.rs)

pub fn u256(x: u128) -> Uint256 {
    Uint256::from(x)
}
pub fn to128(x: Uint256) -> u128 {
    cosmwasm_std::Uint128::try_from(x).expect("u128 overflow in oracle").u128()
}
/// floor(a * r / 1e18)
pub fn mul_rate(a: u128, r: u128) -> u128 {
    to128(u256(a) * u256(r) / u256(E18))
}
/// floor(a * 1e18 / r)
pub fn div_rate(a: u128, r: u128) -> u128 {
    to128(u256(a) * u256(E18) / u256(r))
}
/// floor(n * 1e18 / d)
pub fn ratio18(n: u128, d: u128) -> u128 {
    to128(u256(n) * u256(E18) / u256(d))
}
/// exchange rate per the property text: backing / claims, 1 when either is zero
pub fn rate_of(pool: u128, claims: u128) -> u128 {
    if pool == 0 || claims == 0 {
        E18
    } else {
        ratio18(pool, claims)
    }
}
pub fn mul_div(a: u128, b: u128, c: u128) -> u128 {
    to128(u256(a) * u256(b) / u256(c))
}
pub fn mul_div_ceil(a: u128, b: u128, c: u128) -> u128 {
    let p = u256(a) * u256(b);
    let q = p / u256(c);
    if q * u256(c) == p {
        to128(q)
    } else {
        to128(q) + 1
    }
}
pub fn u512(x: u128) -> Uint512 {
    Uint512::from(x)
}

pub fn decade(x: u128) -> u32 {
    if x == 0 {
        0
    } else {
        (x as f64).log10().floor() as u32 + 1
    }
}

pub fn rate_class(r: u128) -> u8 {
    if r < E18 {
        0
    } else if r == E18 {
        1
    } else {
        2
    }
}
