//! C10 (authorisation matrix), C11 (pause), C20 (configuration ranges): finite matrices of
//! (message variant x sender class) evaluated on cloned worlds in several state classes, plus
//! pause-transparency twins and configuration-update sequences.

use crate::chain::{coin, World};
use crate::driver::{run_sharded, HistoryReport};
use crate::gen::{self, GenState, Profile};
use crate::mon::Out;
use crate::ops::*;
use crate::props::finish;
use crate::rng::Rng;
use crate::setup::*;
use crate::snap;
use basset::hub as h;
use basset::reward as rw;
use basset_sei_rewards_dispatcher::msg as dm;
use basset_sei_validators_registry::msg as rm;
use cosmwasm_std::{to_json_binary, Binary, Decimal, Uint128};

use serde_json::json;
use std::collections::{BTreeMap, BTreeSet};

pub fn ids() -> Vec<&'static str> {
    vec!["C10", "C11", "C20"]
}

pub fn run(id: &str, tier: &str, seed: u64, threads: usize, histories: Option<u64>, replay: Option<&str>) -> Option<i32> {
    match id {
        "C10" => Some(run_generic("C10", tier, seed, threads, histories, replay, (20, 1500), c10_world, C10_RULE)),
        "C11" => Some(run_generic("C11", tier, seed, threads, histories, replay, (150, 10000), c11_world, C11_RULE)),
        "C20" => Some(run_generic("C20", tier, seed, threads, histories, replay, (1500, 300000), c20_world, C20_RULE)),
        _ => None,
    }
}

const C10_RULE: &str = "every ExecuteMsg variant of the six contracts (exhaustive Rust matches; payload variations) x every sender class (owner, pending nominee, ex-owner, each sibling contract, keeper, updater, airdrop registry, arbitrary user, the contract itself) executed as real transactions on clones of worlds in six state classes (fresh, evolved by an economic history, ownership transfer pending / completed / abandoned, registry not configured); a case is one cell; distinct = (contract, variant, payload index, sender class, state class, outcome)";
const C11_RULE: &str = "hub message variants x sender classes in paused states reached at random points of economic histories (directly and through token Send hooks), queries while paused, legacy wait-list migration in random chunks, and pause-transparency twins (same history with pause / failed attempt / unpause inserted at random positions, compared by world digest after every step); distinct = (variant, sender class, paused-state shape) and (twin length, #pause windows)";
const C20_RULE: &str = "configuration worlds: random instantiate parameters and random sequences of UpdateParams / UpdateConfig / UpdateSwapDenom / UpdateSwapContract / UpdateOracleContract / ownership messages with every present/absent combination of optional fields and boundary values; reference configuration record updated from accepted messages only; distinct = (contract, message, field presence mask, accepted?)";

#[allow(clippy::too_many_arguments)]
fn run_generic(id: &'static str, tier: &str, seed: u64, threads: usize, histories: Option<u64>, replay: Option<&str>, budget: (u64, u64), f: fn(u64, u64, bool) -> HistoryReport, rule: &str) -> i32 {
    let t0 = std::time::Instant::now();
    let n = histories.unwrap_or(if tier == "quick" { budget.0 } else { budget.1 });
    let thorough = tier == "thorough";
    let mut seed = seed;
    let sum = if let Some(path) = replay {
        let v: serde_json::Value = match std::fs::read_to_string(path).ok().and_then(|s| serde_json::from_str(&s).ok()) {
            Some(v) => v,
            None => return 2,
        };
        seed = v["seed"].as_u64().unwrap_or(seed);
        let idx = v["history_index"].as_u64().unwrap_or(0);
        run_sharded(1, 1, |_| f(seed, idx, thorough))
    } else {
        run_sharded(n, threads, |i| f(seed, i, thorough))
    };
    let required: Vec<(&str, u64)> = match id {
        "C10" => vec![("c10.cells", 1), ("c10.unauthorised_cells_rejected", 1), ("c10.principal_passes", 1), ("c10.token_address_change_attempts", 1), ("c10.state_class.evolved", 1), ("c10.state_class.transfer_completed", 1), ("c10.state_class.transfer_abandoned", 1), ("c10.state_class_attempted.registry_unset", 1), ("c10.state_class_attempted.only_bsei_token_registered", 1), ("c10.state_class_attempted.only_stsei_token_registered", 1), ("c10.principal_passes", 1)],
        "C11" => vec![("c11.paused_cells", 1), ("c11.paused_cells_rejected", 1), ("c11.owner_update_params_while_paused", 1), ("c11.migrations", 1), ("c11.unpause_rejected_with_legacy_entries", 1), ("c11.twins_compared", 1), ("c11.twin_pause_windows", 1), ("c11.queries_while_paused", 1), ("c11.hook_cells_via_token_send", 1), ("c11.migrations_longer_than_default_page", 1)],
        _ => vec![("c20.updates_accepted", 1), ("c20.updates_rejected", 1), ("c20.hub_params_updates", 1), ("c20.dispatcher_config_updates", 1), ("c20.instantiates_out_of_range_attempted", 1), ("c20.instantiates_with_threshold_above_one", 1), ("c20.first_token_registrations", 1), ("c20.partial_updates_checked", 1)],
    };
    finish(id, tier, seed, sum, &required, rule, t0, replay.is_some(), json!({}))
}

// ---------------------------------------------------------------------------------------------
// message samples

#[derive(Clone, Debug, PartialEq)]
pub enum Who {
    Public,
    Owner,
    Nominee,
    /// fixed addresses
    Only(Vec<&'static str>),
    OwnerOr(Vec<&'static str>),
    /// hub: designated index updater or the registry
    UpdaterOrRegistry,
    /// cw20-base marketing account
    Marketing,
}

#[derive(Clone, Debug)]
pub struct Sample {
    pub contract: &'static str,
    pub variant: &'static str,
    pub payload: usize,
    pub msg: Binary,
    pub funds: Vec<(u128, &'static str)>,
    pub who: Who,
    /// expected to fail for everybody (e.g. re-pointing a token address)
    pub must_fail: bool,
}

#[allow(unreachable_patterns)]
fn hub_variant(m: &h::ExecuteMsg) -> &'static str {
    match m {
        h::ExecuteMsg::UpdateConfig { .. } => "UpdateConfig",
        h::ExecuteMsg::UpdateParams { .. } => "UpdateParams",
        h::ExecuteMsg::SetOwner { .. } => "SetOwner",
        h::ExecuteMsg::AcceptOwnership {} => "AcceptOwnership",
        h::ExecuteMsg::Bond {} => "Bond",
        h::ExecuteMsg::BondForStSei {} => "BondForStSei",
        h::ExecuteMsg::BondRewards {} => "BondRewards",
        h::ExecuteMsg::UpdateGlobalIndex { .. } => "UpdateGlobalIndex",
        h::ExecuteMsg::WithdrawUnbonded {} => "WithdrawUnbonded",
        h::ExecuteMsg::CheckSlashing {} => "CheckSlashing",
        h::ExecuteMsg::Receive(_) => "Receive",
        h::ExecuteMsg::ClaimAirdrop { .. } => "ClaimAirdrop",
        h::ExecuteMsg::SwapHook { .. } => "SwapHook",
        h::ExecuteMsg::RedelegateProxy { .. } => "RedelegateProxy",
        h::ExecuteMsg::MigrateUnbondWaitList { .. } => "MigrateUnbondWaitList",
        // a variant this table does not know (added after it was written): nothing to judge, but no build break
        _ => "UnknownVariant",
    }
}

#[allow(unreachable_patterns)]
fn hub_who(m: &h::ExecuteMsg) -> Who {
    match m {
        h::ExecuteMsg::UpdateConfig { .. } | h::ExecuteMsg::UpdateParams { .. } | h::ExecuteMsg::SetOwner { .. } => Who::Owner,
        h::ExecuteMsg::AcceptOwnership {} => Who::Nominee,
        h::ExecuteMsg::Bond {} | h::ExecuteMsg::BondForStSei {} | h::ExecuteMsg::WithdrawUnbonded {} | h::ExecuteMsg::CheckSlashing {} => Who::Public,
        h::ExecuteMsg::BondRewards {} => Who::Only(vec![DISPATCHER]),
        h::ExecuteMsg::UpdateGlobalIndex { .. } => Who::UpdaterOrRegistry,
        h::ExecuteMsg::Receive(_) => Who::Only(vec![BSEI, STSEI]),
        h::ExecuteMsg::ClaimAirdrop { .. } => Who::Only(vec![AIRDROP]),
        h::ExecuteMsg::SwapHook { .. } => Who::Only(vec![HUB]),
        h::ExecuteMsg::RedelegateProxy { .. } => Who::Only(vec![REGISTRY]),
        // only usable while paused, by anybody (legacy migration); not in the property's privileged list
        h::ExecuteMsg::MigrateUnbondWaitList { .. } => Who::Public,
        _ => Who::Public,
    }
}

#[allow(unreachable_patterns)]
fn reward_variant(m: &rw::ExecuteMsg) -> (&'static str, Who) {
    match m {
        rw::ExecuteMsg::UpdateConfig { .. } => ("UpdateConfig", Who::Owner),
        rw::ExecuteMsg::SwapToRewardDenom {} => ("SwapToRewardDenom", Who::Only(vec![DISPATCHER])),
        rw::ExecuteMsg::SetOwner { .. } => ("SetOwner", Who::Owner),
        rw::ExecuteMsg::AcceptOwnership {} => ("AcceptOwnership", Who::Nominee),
        rw::ExecuteMsg::UpdateGlobalIndex {} => ("UpdateGlobalIndex", Who::Only(vec![DISPATCHER])),
        rw::ExecuteMsg::IncreaseBalance { .. } => ("IncreaseBalance", Who::Only(vec![BSEI])),
        rw::ExecuteMsg::DecreaseBalance { .. } => ("DecreaseBalance", Who::Only(vec![BSEI])),
        rw::ExecuteMsg::ClaimRewards { .. } => ("ClaimRewards", Who::Public),
        rw::ExecuteMsg::UpdateSwapDenom { .. } => ("UpdateSwapDenom", Who::Owner),
        _ => ("UnknownVariant", Who::Public),
    }
}

#[allow(unreachable_patterns)]
fn dispatcher_variant(m: &dm::ExecuteMsg) -> (&'static str, Who) {
    match m {
        dm::ExecuteMsg::SwapToRewardDenom { .. } => ("SwapToRewardDenom", Who::Only(vec![HUB])),
        dm::ExecuteMsg::UpdateConfig { .. } => ("UpdateConfig", Who::Owner),
        dm::ExecuteMsg::SetOwner { .. } => ("SetOwner", Who::Owner),
        dm::ExecuteMsg::AcceptOwnership {} => ("AcceptOwnership", Who::Nominee),
        dm::ExecuteMsg::DispatchRewards {} => ("DispatchRewards", Who::Only(vec![HUB])),
        dm::ExecuteMsg::UpdateSwapContract { .. } => ("UpdateSwapContract", Who::Owner),
        dm::ExecuteMsg::UpdateSwapDenom { .. } => ("UpdateSwapDenom", Who::Owner),
        dm::ExecuteMsg::UpdateOracleContract { .. } => ("UpdateOracleContract", Who::Owner),
        _ => ("UnknownVariant", Who::Public),
    }
}

#[allow(unreachable_patterns)]
fn registry_variant(m: &rm::ExecuteMsg) -> (&'static str, Who) {
    match m {
        rm::ExecuteMsg::AddValidator { .. } => ("AddValidator", Who::OwnerOr(vec![HUB])),
        rm::ExecuteMsg::RemoveValidator { .. } => ("RemoveValidator", Who::Owner),
        rm::ExecuteMsg::UpdateConfig { .. } => ("UpdateConfig", Who::Owner),
        // public by construction (acts only for unregistered validators); exercised, not judged
        rm::ExecuteMsg::Redelegations { .. } => ("Redelegations", Who::Public),
        rm::ExecuteMsg::SetOwner { .. } => ("SetOwner", Who::Owner),
        rm::ExecuteMsg::AcceptOwnership {} => ("AcceptOwnership", Who::Nominee),
        _ => ("UnknownVariant", Who::Public),
    }
}

#[allow(unreachable_patterns)]
fn bsei_variant(m: &cw20_legacy::msg::ExecuteMsg) -> (&'static str, Who) {
    use cw20_legacy::msg::ExecuteMsg as E;
    match m {
        E::Transfer { .. } => ("Transfer", Who::Public),
        E::Burn { .. } => ("Burn", Who::Only(vec![HUB])),
        E::Send { .. } => ("Send", Who::Public),
        E::Mint { .. } => ("Mint", Who::Only(vec![HUB])),
        E::IncreaseAllowance { .. } => ("IncreaseAllowance", Who::Public),
        E::DecreaseAllowance { .. } => ("DecreaseAllowance", Who::Public),
        E::TransferFrom { .. } => ("TransferFrom", Who::Public),
        E::BurnFrom { .. } => ("BurnFrom", Who::Public),
        E::SendFrom { .. } => ("SendFrom", Who::Public),
        _ => ("UnknownVariant", Who::Public),
    }
}

#[allow(unreachable_patterns)]
fn stsei_variant(m: &cw20_base::msg::ExecuteMsg) -> (&'static str, Who) {
    use cw20_base::msg::ExecuteMsg as E;
    match m {
        E::Transfer { .. } => ("Transfer", Who::Public),
        E::Burn { .. } => ("Burn", Who::Only(vec![HUB])),
        E::Send { .. } => ("Send", Who::Public),
        E::Mint { .. } => ("Mint", Who::Only(vec![HUB])),
        E::IncreaseAllowance { .. } => ("IncreaseAllowance", Who::Public),
        E::DecreaseAllowance { .. } => ("DecreaseAllowance", Who::Public),
        E::TransferFrom { .. } => ("TransferFrom", Who::Public),
        E::BurnFrom { .. } => ("BurnFrom", Who::Public),
        E::SendFrom { .. } => ("SendFrom", Who::Public),
        E::UpdateMinter { .. } => ("UpdateMinter", Who::Only(vec![HUB])),
        E::UpdateMarketing { .. } => ("UpdateMarketing", Who::Marketing),
        E::UploadLogo(_) => ("UploadLogo", Who::Marketing),
        _ => ("UnknownVariant", Who::Public),
    }
}

fn bin<T: serde::Serialize>(t: &T) -> Binary {
    to_json_binary(t).unwrap()
}

pub fn hub_samples() -> Vec<Sample> {
    // (built from JSON: a field added to these messages must not break the harness build)
    let cfg_msg = |field: Option<&str>| -> h::ExecuteMsg {
        let mut m = serde_json::Map::new();
        if let Some(f) = field {
            m.insert(f.to_string(), serde_json::Value::String(STRANGER.into()));
        }
        crate::setup::mk(serde_json::json!({ "update_config": m }))
    };
    let none_cfg = cfg_msg(None);
    let msgs: Vec<(h::ExecuteMsg, Vec<(u128, &'static str)>, bool)> = vec![
        (none_cfg, vec![], false),
        (cfg_msg(Some("bsei_token_contract")), vec![], true),
        (cfg_msg(Some("stsei_token_contract")), vec![], true),
        (cfg_msg(Some("update_reward_index_addr")), vec![], false),
        (crate::setup::mk(serde_json::json!({"update_params": {"epoch_period": 7, "paused": false}})), vec![], false),
        (crate::setup::mk(serde_json::json!({"update_params": {"peg_recovery_fee": "0.1", "paused": true}})), vec![], false),
        (h::ExecuteMsg::SetOwner { new_owner_addr: STRANGER.into() }, vec![], false),
        (h::ExecuteMsg::AcceptOwnership {}, vec![], false),
        (h::ExecuteMsg::Bond {}, vec![(1000, USEI)], false),
        (h::ExecuteMsg::BondForStSei {}, vec![(1000, USEI)], false),
        (h::ExecuteMsg::BondRewards {}, vec![(1000, USEI)], false),
        (h::ExecuteMsg::UpdateGlobalIndex { airdrop_hooks: None }, vec![], false),
        (h::ExecuteMsg::UpdateGlobalIndex { airdrop_hooks: Some(vec![Binary::from(b"{}".to_vec())]) }, vec![], false),
        (h::ExecuteMsg::WithdrawUnbonded {}, vec![], false),
        (h::ExecuteMsg::CheckSlashing {}, vec![], false),
        (h::ExecuteMsg::Receive(cw20::Cw20ReceiveMsg { sender: STRANGER.into(), amount: Uint128::new(5), msg: hook(&h::Cw20HookMsg::Unbond {}) }), vec![], false),
        (h::ExecuteMsg::Receive(cw20::Cw20ReceiveMsg { sender: STRANGER.into(), amount: Uint128::new(5), msg: hook(&h::Cw20HookMsg::Convert {}) }), vec![], false),
        (
            h::ExecuteMsg::ClaimAirdrop {
                airdrop_token_contract: DUMMY.into(),
                airdrop_contract: DUMMY.into(),
                airdrop_swap_contract: DUMMY.into(),
                claim_msg: Binary::from(b"{}".to_vec()),
                swap_msg: Binary::from(b"{}".to_vec()),
            },
            vec![],
            false,
        ),
        (h::ExecuteMsg::SwapHook { airdrop_token_contract: DUMMY.into(), airdrop_swap_contract: DUMMY.into(), swap_msg: Binary::from(b"{}".to_vec()) }, vec![], false),
        (h::ExecuteMsg::RedelegateProxy { src_validator: "val1".into(), redelegations: vec![("val2".into(), coin(1, USEI))] }, vec![], false),
        (h::ExecuteMsg::RedelegateProxy { src_validator: "val1".into(), redelegations: vec![] }, vec![], false),
        (h::ExecuteMsg::MigrateUnbondWaitList { limit: Some(3) }, vec![], false),
    ];
    let mut per: BTreeMap<&'static str, usize> = BTreeMap::new();
    msgs.into_iter()
        .map(|(m, funds, must_fail)| {
            let v = hub_variant(&m);
            let n = per.entry(v).or_insert(0);
            let s = Sample { contract: HUB, variant: v, payload: *n, msg: bin(&m), funds, who: hub_who(&m), must_fail };
            *n += 1;
            s
        })
        .collect()
}

pub const HUB_VARIANTS: [&str; 15] = [
    "UpdateConfig", "UpdateParams", "SetOwner", "AcceptOwnership", "Bond", "BondForStSei", "BondRewards", "UpdateGlobalIndex", "WithdrawUnbonded", "CheckSlashing", "Receive", "ClaimAirdrop", "SwapHook", "RedelegateProxy", "MigrateUnbondWaitList",
];

pub fn other_samples() -> Vec<Sample> {
    let mut out = vec![];
    let mut per: BTreeMap<(&'static str, &'static str), usize> = BTreeMap::new();
    let mut push = |contract: &'static str, variant: &'static str, who: Who, msg: Binary, must_fail: bool| {
        let n = per.entry((contract, variant)).or_insert(0);
        out.push(Sample { contract, variant, payload: *n, msg, funds: vec![], who, must_fail });
        *n += 1;
    };
    for m in [
        crate::setup::mk::<rw::ExecuteMsg>(serde_json::json!({"update_config": {}})),
        crate::setup::mk::<rw::ExecuteMsg>(serde_json::json!({"update_config": {"hub_contract": STRANGER, "reward_denom": "evil"}})),
        rw::ExecuteMsg::SwapToRewardDenom {},
        rw::ExecuteMsg::SetOwner { new_owner_addr: STRANGER.into() },
        rw::ExecuteMsg::AcceptOwnership {},
        rw::ExecuteMsg::UpdateGlobalIndex {},
        rw::ExecuteMsg::IncreaseBalance { address: STRANGER.into(), amount: Uint128::new(1000) },
        rw::ExecuteMsg::DecreaseBalance { address: STRANGER.into(), amount: Uint128::new(1) },
        rw::ExecuteMsg::DecreaseBalance { address: USERS[0].into(), amount: Uint128::new(1) },
        rw::ExecuteMsg::ClaimRewards { recipient: None },
        rw::ExecuteMsg::UpdateSwapDenom { swap_denom: "evil".into(), is_add: true },
        rw::ExecuteMsg::UpdateSwapDenom { swap_denom: "usei".into(), is_add: false },
    ] {
        let (v, who) = reward_variant(&m);
        push(REWARD, v, who, bin(&m), false);
    }
    for m in [
        dm::ExecuteMsg::SwapToRewardDenom { bsei_total_bonded: Uint128::new(10), stsei_total_bonded: Uint128::new(10) },
        crate::setup::mk::<dm::ExecuteMsg>(serde_json::json!({"update_config": {}})),
        crate::setup::mk::<dm::ExecuteMsg>(serde_json::json!({"update_config": {"hub_contract": STRANGER, "bsei_reward_contract": STRANGER, "krp_keeper_address": STRANGER, "krp_keeper_rate": "1"}})),
        dm::ExecuteMsg::SetOwner { new_owner_addr: STRANGER.into() },
        dm::ExecuteMsg::AcceptOwnership {},
        dm::ExecuteMsg::DispatchRewards {},
        dm::ExecuteMsg::UpdateSwapContract { swap_contract: STRANGER.into() },
        dm::ExecuteMsg::UpdateSwapDenom { swap_denom: "evil".into(), is_add: true },
        dm::ExecuteMsg::UpdateSwapDenom { swap_denom: "usei".into(), is_add: false },
        dm::ExecuteMsg::UpdateOracleContract { oracle_contract: STRANGER.into() },
    ] {
        let (v, who) = dispatcher_variant(&m);
        push(DISPATCHER, v, who, bin(&m), false);
    }
    for m in [
        crate::setup::mk::<rm::ExecuteMsg>(serde_json::json!({"add_validator": {"validator": {"address": "valx"}}})),
        rm::ExecuteMsg::RemoveValidator { address: "val1".into() },
        rm::ExecuteMsg::RemoveValidator { address: "nosuchvalidator".into() },
        crate::setup::mk::<rm::ExecuteMsg>(serde_json::json!({"update_config": {}})),
        crate::setup::mk::<rm::ExecuteMsg>(serde_json::json!({"update_config": {"hub_contract": STRANGER}})),
        rm::ExecuteMsg::Redelegations { address: "val9".into() },
        rm::ExecuteMsg::SetOwner { new_owner_addr: STRANGER.into() },
        rm::ExecuteMsg::AcceptOwnership {},
    ] {
        let (v, who) = registry_variant(&m);
        push(REGISTRY, v, who, bin(&m), false);
    }
    {
        use cw20_legacy::msg::ExecuteMsg as E;
        for m in [
            E::Transfer { recipient: STRANGER.into(), amount: Uint128::new(1) },
            E::Burn { amount: Uint128::new(1) },
            E::Send { contract: DUMMY.into(), amount: Uint128::new(1), msg: Binary::from(b"{}".to_vec()) },
            E::Mint { recipient: STRANGER.into(), amount: Uint128::new(1000) },
            E::IncreaseAllowance { spender: USERS[1].into(), amount: Uint128::new(1), expires: None },
            E::DecreaseAllowance { spender: USERS[1].into(), amount: Uint128::new(1), expires: None },
            E::TransferFrom { owner: USERS[0].into(), recipient: STRANGER.into(), amount: Uint128::new(1) },
            E::BurnFrom { owner: USERS[0].into(), amount: Uint128::new(1) },
            E::SendFrom { owner: USERS[0].into(), contract: DUMMY.into(), amount: Uint128::new(1), msg: Binary::from(b"{}".to_vec()) },
        ] {
            let (v, who) = bsei_variant(&m);
            push(BSEI, v, who, bin(&m), false);
        }
    }
    {
        use cw20_base::msg::ExecuteMsg as E;
        for m in [
            E::Transfer { recipient: STRANGER.into(), amount: Uint128::new(1) },
            E::Burn { amount: Uint128::new(1) },
            E::Send { contract: DUMMY.into(), amount: Uint128::new(1), msg: Binary::from(b"{}".to_vec()) },
            E::Mint { recipient: STRANGER.into(), amount: Uint128::new(1000) },
            E::IncreaseAllowance { spender: USERS[1].into(), amount: Uint128::new(1), expires: None },
            E::DecreaseAllowance { spender: USERS[1].into(), amount: Uint128::new(1), expires: None },
            E::TransferFrom { owner: USERS[0].into(), recipient: STRANGER.into(), amount: Uint128::new(1) },
            E::BurnFrom { owner: USERS[0].into(), amount: Uint128::new(1) },
            E::SendFrom { owner: USERS[0].into(), contract: DUMMY.into(), amount: Uint128::new(1), msg: Binary::from(b"{}".to_vec()) },
            E::UpdateMinter { new_minter: Some(STRANGER.into()) },
            E::UpdateMinter { new_minter: None },
            E::UpdateMarketing { project: Some("x".into()), description: None, marketing: None },
            E::UploadLogo(cw20::Logo::Url("https://example.org/logo.png".into())),
        ] {
            let (v, who) = stsei_variant(&m);
            push(STSEI, v, who, bin(&m), false);
        }
    }
    out
}

// ---------------------------------------------------------------------------------------------
// principals in a given world

/// A field of the registry's `Config` answer as a human address, whether the contract reports it as the stored
/// canonical address (base64, as shipped) or as a human address (as the other contracts do).
pub fn registry_cfg_field(w: &World, field: &str) -> Option<String> {
    use cosmwasm_std::Api;
    let v: serde_json::Value = w.q(REGISTRY, &rm::QueryMsg::Config {}).ok()?;
    let raw = v.get(field)?.as_str()?.to_string();
    if let Ok(bin) = cosmwasm_std::Binary::from_base64(&raw) {
        if let Ok(a) = cosmwasm_std::testing::MockApi::default().addr_humanize(&cosmwasm_std::CanonicalAddr::from(bin.to_vec())) {
            if w.kinds.contains_key(a.as_str()) || a.as_str().chars().all(|c| c.is_ascii_alphanumeric() || c == '_') {
                return Some(a.to_string());
            }
        }
    }
    Some(raw)
}

pub fn owner_of(w: &World, c: &str) -> Option<String> {
    match c {
        HUB => w.q::<h::ConfigResponse, _>(HUB, &h::QueryMsg::Config {}).ok().map(|x| x.owner),
        REWARD => w.q::<rw::ConfigResponse, _>(REWARD, &rw::QueryMsg::Config {}).ok().map(|x| x.owner),
        DISPATCHER => w.q::<basset::dispatcher::ConfigResponse, _>(DISPATCHER, &dm::QueryMsg::Config {}).ok().map(|x| x.owner),
        REGISTRY => registry_cfg_field(w, "owner"),
        _ => None,
    }
}

pub fn nominee_of(w: &World, c: &str) -> Option<String> {
    match c {
        HUB => w.q::<h::NewOwnerResponse, _>(HUB, &h::QueryMsg::NewOwner {}).ok().map(|x| x.new_owner),
        REWARD => w.q::<rw::NewOwnerResponse, _>(REWARD, &rw::QueryMsg::NewOwner {}).ok().map(|x| x.new_owner),
        DISPATCHER => w.q::<basset::dispatcher::NewOwnerResponse, _>(DISPATCHER, &dm::QueryMsg::NewOwner {}).ok().map(|x| x.new_owner),
        REGISTRY => w.q::<basset_sei_validators_registry::registry::NewOwnerResponse, _>(REGISTRY, &rm::QueryMsg::NewOwner {}).ok().map(|x| x.new_owner),
        _ => None,
    }
}

/// None = public
pub fn allowed(w: &World, s: &Sample) -> Option<Vec<String>> {
    match &s.who {
        Who::Public => None,
        Who::Owner => Some(owner_of(w, s.contract).into_iter().collect()),
        Who::Nominee => Some(nominee_of(w, s.contract).into_iter().collect()),
        Who::Only(v) => {
            let mut a: Vec<String> = v.iter().map(|x| x.to_string()).collect();
            if s.contract == HUB {
                // a sibling contract is the designated principal of a hub message only while the hub's configuration
                // names it (staged deployments: an unregistered token is nobody's principal)
                if let Ok(c) = w.q::<h::ConfigResponse, _>(HUB, &h::QueryMsg::Config {}) {
                    let registered: Vec<String> = [c.reward_dispatcher_contract, c.validators_registry_contract, c.bsei_token_contract, c.stsei_token_contract, c.airdrop_registry_contract]
                        .into_iter()
                        .flatten()
                        .chain(std::iter::once(HUB.to_string()))
                        .collect();
                    a.retain(|x| registered.contains(x));
                }
            }
            Some(a)
        }
        Who::OwnerOr(v) => {
            let mut a: Vec<String> = owner_of(w, s.contract).into_iter().collect();
            a.extend(v.iter().map(|x| x.to_string()));
            Some(a)
        }
        Who::UpdaterOrRegistry => {
            let cfg: Option<h::ConfigResponse> = w.q(HUB, &h::QueryMsg::Config {}).ok();
            let mut a = vec![];
            if let Some(c) = cfg {
                a.push(c.update_reward_index_addr);
                if let Some(r) = c.validators_registry_contract {
                    a.push(r);
                }
            }
            Some(a)
        }
        Who::Marketing => {
            let m: Option<cw20::MarketingInfoResponse> = w.q(STSEI, &cw20::Cw20QueryMsg::MarketingInfo {}).ok();
            Some(m.and_then(|x| x.marketing).map(|a| a.to_string()).into_iter().collect())
        }
    }
}

pub const NOMINEE2: &str = "nominee2";

pub fn sender_classes(w: &World, contract: &str) -> Vec<(String, &'static str)> {
    let mut v: Vec<(String, &'static str)> = vec![];
    if let Some(o) = owner_of(w, contract) {
        v.push((o, "owner"));
    }
    if let Some(n) = nominee_of(w, contract) {
        v.push((n, "pending_nominee"));
    }
    for (a, c) in [
        (OWNER, "original_owner"),
        (NOMINEE, "nominee"),
        (NOMINEE2, "second_nominee"),
        (EXOWNER, "ex_owner"),
        (HUB, "hub"),
        (REWARD, "reward"),
        (DISPATCHER, "dispatcher"),
        (REGISTRY, "registry"),
        (BSEI, "bsei_token"),
        (STSEI, "stsei_token"),
        (KEEPER, "keeper"),
        (UPDATER, "updater"),
        (AIRDROP, "airdrop_registry"),
        (SWAP, "swap"),
        (STRANGER, "arbitrary_user"),
        (USERS[0], "token_holder"),
    ] {
        v.push((a.to_string(), c));
    }
    let mut seen = BTreeSet::new();
    v.retain(|x| seen.insert(x.0.clone()));
    v
}

fn is_auth_error(e: &str) -> bool {
    let l = e.to_lowercase();
    l.contains("unauthorized") || l.contains("sender must be")
}

fn fund_everybody(w: &mut World) {
    for a in [OWNER, NOMINEE, NOMINEE2, EXOWNER, HUB, REWARD, DISPATCHER, REGISTRY, BSEI, STSEI, KEEPER, UPDATER, AIRDROP, SWAP, STRANGER] {
        w.mint_coins(a, USEI, 1_000_000);
    }
}

fn evolve(w: &mut World, cfg: &Cfg, r: &mut Rng, steps: u64) {
    let p = Profile::economy("evolve");
    let mut g = GenState::default();
    for _ in 0..steps {
        let s = snap::take(w);
        let op = gen::next_op(r, &s, cfg, &p, &mut g);
        let _ = op.apply(w);
    }
}

fn transfer_ownership(w: &mut World, contract: &str, to: &str) -> bool {
    let owner = match owner_of(w, contract) {
        Some(o) => o,
        None => return false,
    };
    let m = match contract {
        HUB => bin(&h::ExecuteMsg::SetOwner { new_owner_addr: to.into() }),
        REWARD => bin(&rw::ExecuteMsg::SetOwner { new_owner_addr: to.into() }),
        DISPATCHER => bin(&dm::ExecuteMsg::SetOwner { new_owner_addr: to.into() }),
        _ => bin(&rm::ExecuteMsg::SetOwner { new_owner_addr: to.into() }),
    };
    w.tx(&owner, contract, &m, &[]).ok
}

fn accept_ownership(w: &mut World, contract: &str, who: &str) -> bool {
    let m = match contract {
        HUB => bin(&h::ExecuteMsg::AcceptOwnership {}),
        REWARD => bin(&rw::ExecuteMsg::AcceptOwnership {}),
        DISPATCHER => bin(&dm::ExecuteMsg::AcceptOwnership {}),
        _ => bin(&rm::ExecuteMsg::AcceptOwnership {}),
    };
    w.tx(who, contract, &m, &[]).ok
}

const OWNABLE: [&str; 4] = [HUB, REWARD, DISPATCHER, REGISTRY];

// ---------------------------------------------------------------------------------------------
// C10

fn c10_cells(w: &World, state_class: &'static str, samples: &[Sample], out: &mut Out, log: &mut Vec<serde_json::Value>, passes: &mut BTreeMap<(String, String), u64>) {
    out.count(&format!("c10.state_class.{}", state_class));
    let tokens_before: Option<h::ConfigResponse> = w.q(HUB, &h::QueryMsg::Config {}).ok();
    for s in samples {
        let al = allowed(w, s);
        for (sender, class) in sender_classes(w, s.contract) {
            let mut c = w.clone();
            let d0 = c.digest();
            let funds: Vec<cosmwasm_std::Coin> = s.funds.iter().map(|(a, d)| coin(*a, d)).collect();
            let r = c.tx(&sender, s.contract, &s.msg, &funds);
            out.count("c10.cells");
            let authorised = al.as_ref().map(|a| a.contains(&sender)).unwrap_or(true);
            let outcome = if r.ok { "ok" } else if is_auth_error(&r.err) { "auth_error" } else { "other_error" };
            out.distinct(&(s.contract, s.variant, s.payload, class, state_class, outcome));
            if log.len() < 30 {
                log.push(json!({"contract": s.contract, "variant": s.variant, "sender": sender, "sender_class": class, "state_class": state_class, "outcome": outcome}));
            }
            if r.harness_error {
                out.inconclusive.push(format!("harness error in cell {} {} by {}: {}", s.contract, s.variant, sender, r.err));
            }
            if al.is_some() && !authorised {
                if r.ok {
                    out.violation("C10", "unauthorised_sender_rejected", format!("[{}] {}::{} (payload {}) sent by {} ({}) succeeded; designated principal(s): {:?}; msg {}", state_class, s.contract, s.variant, s.payload, sender, class, al, String::from_utf8_lossy(s.msg.as_slice())));
                    return;
                }
                if c.digest() != d0 {
                    out.violation("C10", "rejected_call_changes_nothing", format!("[{}] rejected {}::{} by {} changed the state: {:?}", state_class, s.contract, s.variant, sender, w.diff(&c)));
                    return;
                }
                // the rejection has to come from the contract's own sender check, not from whatever happens to fail
                // further down the message tree (that would be an open door waiting for a state in which it does not)
                if r.trace.execs.first().map(|e| e.handler_ok).unwrap_or(false) {
                    out.violation(
                        "C10",
                        "unauthorised_sender_rejected",
                        format!("[{}] {}::{} (payload {}) sent by {} ({}) was accepted by the contract itself; the transaction only failed later: {}", state_class, s.contract, s.variant, s.payload, sender, class, r.err),
                    );
                    return;
                }
                out.count("c10.unauthorised_cells_rejected");
            } else if al.is_some() {
                // designated principal: must get past the sender check (anti-vacuity counter)
                // re-pointing a token address that is already registered must fail for everybody, the owner included;
                // the first registration of a token (staged deployment) is the owner's right
                let mut must_fail = s.must_fail;
                if s.must_fail && s.contract == HUB && s.variant == "UpdateConfig" {
                    if let Some(cfg) = &tokens_before {
                        let m = String::from_utf8_lossy(s.msg.as_slice()).to_string();
                        let touches_b = !m.contains("\"bsei_token_contract\":null");
                        let touches_s = !m.contains("\"stsei_token_contract\":null");
                        must_fail = (touches_b && cfg.bsei_token_contract.is_some()) || (touches_s && cfg.stsei_token_contract.is_some());
                    }
                }
                if must_fail {
                    out.count("c10.token_address_change_attempts");
                    // "cannot be changed once set": a rejection and a silently ignored value both satisfy that; what is
                    // judged is the address afterwards (below)
                    if r.ok {
                        out.count("c10.token_address_change_accepted_call");
                    } else {
                        out.count("c10.token_address_change_rejected");
                    }
                } else if r.ok || !is_auth_error(&r.err) {
                    out.count("c10.principal_passes");
                    *passes.entry((s.contract.to_string(), s.variant.to_string())).or_insert(0) += 1;
                } else {
                    // C10 says who must be rejected, not that the principal must succeed (an operation may be disabled
                    // for everybody); counted as coverage information
                    out.count("c10.principal_rejected_as_unauthorised");
                }
            }
            // the token addresses can never change
            if s.contract == HUB {
                let after: Option<h::ConfigResponse> = c.q(HUB, &h::QueryMsg::Config {}).ok();
                if let (Some(a), Some(b)) = (&tokens_before, &after) {
                    let b_changed = a.bsei_token_contract.is_some() && a.bsei_token_contract != b.bsei_token_contract;
                    let s_changed = a.stsei_token_contract.is_some() && a.stsei_token_contract != b.stsei_token_contract;
                    if b_changed || s_changed {
                        out.violation("C10", "token_address_immutable", format!("[{}] {} by {} changed a token address: {:?} -> {:?}", state_class, s.variant, sender, (a.bsei_token_contract.clone(), a.stsei_token_contract.clone()), (b.bsei_token_contract.clone(), b.stsei_token_contract.clone())));
                        return;
                    }
                }
            }
        }
    }
}

fn c10_world(seed: u64, index: u64, thorough: bool) -> HistoryReport {
    let mut r = Rng::derive(seed, 10, index);
    let mut cfg = random_cfg(&mut r);
    cfg.n_validators = cfg.n_validators.max(2);
    cfg.n_users = cfg.n_users.max(2);
    let mut out = Out::default();
    let mut log = vec![];
    let mut samples = hub_samples();
    samples.extend(other_samples());
    // every hub variant has at least one sample (the exhaustive match above breaks the build when a variant is added)
    let have: BTreeSet<&str> = samples.iter().filter(|s| s.contract == HUB).map(|s| s.variant).collect();
    for v in HUB_VARIANTS {
        if !have.contains(v) {
            out.inconclusive.push(format!("no sample for hub variant {}", v));
        }
    }
    let mut passes: BTreeMap<(String, String), u64> = BTreeMap::new();
    let mut steps = 0;
    let fresh = match build_world(&cfg) {
        Ok(w) => w,
        Err(e) => {
            out.inconclusive.push(format!("world construction failed: {}", e));
            return HistoryReport { index, out, steps: 0, ok_steps: 0, cfg: cfg.describe(), log, op_kinds: Default::default() };
        }
    };
    let mut base = fresh.clone();
    fund_everybody(&mut base);
    // state classes
    let mut worlds: Vec<(&'static str, World)> = vec![("fresh", base.clone())];
    let mut evolved = base.clone();
    evolve(&mut evolved, &cfg, &mut r, if thorough { 120 } else { 60 });
    worlds.push(("evolved", evolved.clone()));
    let mut pending = evolved.clone();
    let mut completed = evolved.clone();
    let mut abandoned = evolved.clone();
    for c in OWNABLE {
        let a = transfer_ownership(&mut pending, c, NOMINEE);
        let b = transfer_ownership(&mut completed, c, NOMINEE) && accept_ownership(&mut completed, c, NOMINEE);
        let d = transfer_ownership(&mut abandoned, c, NOMINEE) && transfer_ownership(&mut abandoned, c, NOMINEE2);
        if !(a && b && d) {
            out.violation("C10", "ownership_transfer_works", format!("two-step ownership transfer of {} failed for the rightful parties (pending {}, completed {}, abandoned {})", c, a, b, d));
        }
        if owner_of(&completed, c).as_deref() != Some(NOMINEE) {
            out.violation("C10", "ownership_transfer_works", format!("{}: owner after accepted transfer is {:?}", c, owner_of(&completed, c)));
        }
        if owner_of(&abandoned, c).as_deref() != Some(OWNER) || nominee_of(&abandoned, c).as_deref() != Some(NOMINEE2) {
            out.violation("C10", "ownership_transfer_works", format!("{}: after re-nomination owner {:?} nominee {:?}", c, owner_of(&abandoned, c), nominee_of(&abandoned, c)));
        }
    }
    worlds.push(("transfer_pending", pending));
    worlds.push(("transfer_completed", completed));
    worlds.push(("transfer_abandoned", abandoned));
    // hub without a registered validators registry / airdrop registry
    out.count("c10.state_class_attempted.registry_unset");
    if let Ok(mut w) = build_world_with(&cfg, &WorldOpts { skip_registry: true, ..Default::default() }) {
        fund_everybody(&mut w);
        worlds.push(("registry_unset", w));
    }
    // staged deployments: only one of the two token addresses registered so far
    for (class, o) in [
        ("only_bsei_token_registered", WorldOpts { skip_stsei_token: true, ..Default::default() }),
        ("only_stsei_token_registered", WorldOpts { skip_bsei_token: true, ..Default::default() }),
    ] {
        // (a hub that only accepts both tokens together cannot be staged: nothing to judge in that class then)
        out.count(&format!("c10.state_class_attempted.{}", class));
        if let Ok(mut w) = build_world_with(&cfg, &o) {
            fund_everybody(&mut w);
            worlds.push((class, w));
        }
    }
    for (class, w) in worlds.iter() {
        if !out.violations.is_empty() {
            break;
        }
        c10_cells(w, class, &samples, &mut out, &mut log, &mut passes);
        steps += samples.len() as u64;
    }
    // anti-vacuity: every privileged variant reached past its sender check by its principal
    if out.violations.is_empty() {
        let mut missing = vec![];
        for s in samples.iter().filter(|s| s.who != Who::Public && !s.must_fail) {
            if passes.get(&(s.contract.to_string(), s.variant.to_string())).cloned().unwrap_or(0) == 0 {
                missing.push(format!("{}::{}", s.contract, s.variant));
            }
        }
        missing.sort();
        missing.dedup();
        if missing.is_empty() {
            out.count("c10.all_privileged_variants_reached_by_principal");
        } else {
            // whether every privileged operation is still *enabled* for its principal is not C10's subject (it is a
            // rejection property); recorded as coverage information only
            out.count("c10.worlds_with_a_variant_no_principal_got_past");
            let _ = missing;
        }
    }
    let cells = out.counters.get("c10.cells").cloned().unwrap_or(0);
    HistoryReport { index, out, steps: cells.max(steps), ok_steps: 0, cfg: cfg.describe(), log, op_kinds: Default::default() }
}

// ---------------------------------------------------------------------------------------------
// C11

fn plant_legacy(w: &mut World, r: &mut Rng, n: usize) {
    use cosmwasm_std::to_json_vec;
    use cosmwasm_storage::Bucket;
    let st = w.stores.get_mut(HUB).unwrap();
    for i in 0..n {
        let addr = to_json_vec(&format!("legacy{}", i % 5)).unwrap();
        let batch = to_json_vec(&(1000 + 4 * i as u64 + r.range(0, 3))).unwrap();
        let mut b: Bucket<Uint128> = Bucket::multilevel(st, &[&b"wait"[..], &addr]);
        b.save(&batch, &Uint128::new(r.range128(1, 1_000_000))).unwrap();
    }
}

/// number of legacy wait-list entries, counted on the raw storage keys (length-prefixed namespace "wait"),
/// independently of the repository's own reader
fn legacy_left(w: &World) -> usize {
    let prefix: &[u8] = &[0, 4, b'w', b'a', b'i', b't'];
    w.stores[HUB].0.keys().filter(|k| k.starts_with(prefix)).count()
}

fn norm_digest(w: &World) -> u64 {
    snap::sem_digest(w)
}

fn pause_op(p: bool) -> Op {
    Op::UpdateParams { sender: OWNER.into(), epoch: None, fee: None, threshold: None, paused: Some(p) }
}

fn c11_world(seed: u64, index: u64, thorough: bool) -> HistoryReport {
    let mut r = Rng::derive(seed, 11, index);
    let mut cfg = random_cfg(&mut r);
    cfg.n_validators = cfg.n_validators.max(2);
    if r.chance(2, 3) {
        cfg.epoch_period = *r.pick(&[1u64, 3, 10, 30]);
        cfg.unbonding_period = *r.pick(&[1u64, 5, 20, 60]);
    }
    let mut out = Out::default();
    let mut log: Vec<serde_json::Value> = vec![];
    let mut steps = 0u64;
    let mut w = match build_world(&cfg) {
        Ok(w) => w,
        Err(e) => {
            out.inconclusive.push(format!("world construction failed: {}", e));
            return HistoryReport { index, out, steps: 0, ok_steps: 0, cfg: cfg.describe(), log, op_kinds: Default::default() };
        }
    };
    fund_everybody(&mut w);
    let samples = hub_samples();

    // ------------ part 1: pause-transparency twin, with matrices at the pause points
    let p = Profile::economy("c11");
    let mut g = GenState::default();
    let n = r.range(40, if thorough { 160 } else { 90 });
    let mut twin = w.clone();
    let mut windows = 0u64;
    for step in 0..n {
        let s = snap::take(&w);
        let op = gen::next_op(&mut r, &s, &cfg, &p, &mut g);
        // twin: sometimes wrap the operation in a pause window first
        // only operations that reach the hub (directly or through a token's Send hook) are blocked by the pause;
        // the owner's UpdateParams is the admitted exception
        let through_hub = match &op {
            Op::Bond { .. } | Op::BondStSei { .. } | Op::Unbond { .. } | Op::Convert { .. } | Op::Withdraw { .. } | Op::CheckSlashing { .. } | Op::UpdateGlobalIndex { .. } => true,
            Op::Raw { contract, .. } => contract == HUB,
            _ => false,
        };
        if through_hub && r.chance(1, 4) {
            let r1 = pause_op(true).apply(&mut twin);
            if !r1.ok() {
                out.violation("C11", "owner_can_pause", format!("owner could not pause: {:?}", r1.tx.map(|t| t.err)));
                break;
            }
            windows += 1;
            out.count("c11.twin_pause_windows");
            let d_paused = twin.digest();
            // the same operation attempted during the pause must fail and change nothing
            let ra = op.apply(&mut twin);
            if ra.ok() {
                out.violation("C11", "blocked_while_paused", format!("{} succeeded while the hub was paused: {}", op.kind(), serde_json::to_string(&op).unwrap_or_default()));
                break;
            }
            if twin.digest() != d_paused {
                out.violation("C11", "blocked_while_paused", format!("a rejected {} changed the state while paused", op.kind()));
                break;
            }
            // matrix of every hub variant x sender class in this paused state (a few times per history)
            if windows <= 2 {
                c11_cells(&twin, &samples, &mut out, &mut log);
                if !out.violations.is_empty() {
                    break;
                }
                // queries keep working
                let sp = snap::take(&twin);
                out.count("c11.queries_while_paused");
                if !sp.query_errors.is_empty() {
                    out.violation("C11", "queries_work_while_paused", format!("{:?}", sp.query_errors));
                    break;
                }
                for u in USERS.iter().take(cfg.n_users) {
                    if twin.q::<h::WithdrawableUnbondedResponse, _>(HUB, &serde_json::json!({"withdrawable_unbonded": {"address": u.to_string()}})).is_err() {
                        out.violation("C11", "queries_work_while_paused", format!("WithdrawableUnbonded({}) failed while paused", u));
                    }
                }
                if twin.q::<h::ConfigResponse, _>(HUB, &h::QueryMsg::Config {}).is_err() || twin.q::<h::NewOwnerResponse, _>(HUB, &h::QueryMsg::NewOwner {}).is_err() {
                    out.violation("C11", "queries_work_while_paused", "Config / NewOwner query failed while paused".into());
                }
            }
            let r2 = pause_op(false).apply(&mut twin);
            if !r2.ok() {
                out.violation("C11", "owner_can_unpause", format!("owner could not unpause: {:?}", r2.tx.map(|t| t.err)));
                break;
            }
        }
        let ra = op.apply(&mut w);
        let rb = op.apply(&mut twin);
        steps += 1;
        if log.len() < 40 {
            log.push(json!({"step": step, "op": serde_json::to_value(&op).unwrap_or_default(), "ok": ra.ok()}));
        }
        if ra.ok() != rb.ok() || norm_digest(&w) != norm_digest(&twin) {
            out.violation(
                "C11",
                "pause_transparent",
                format!("after {} pause/unpause cycles the twin diverged at step {} ({}): ok {} vs {}, diff {:?}", windows, step, op.kind(), ra.ok(), rb.ok(), w.diff(&twin).into_iter().take(4).collect::<Vec<_>>()),
            );
            break;
        }
    }
    if out.violations.is_empty() {
        out.count("c11.twins_compared");
        out.distinct(&("twin", n / 10, windows.min(20)));
    }

    // ------------ part 2: legacy wait-list entries keep the hub paused until migrated
    if out.violations.is_empty() {
        let mut c = w.clone();
        // mostly a handful of entries; sometimes more than the migration's default page (1000) so that an
        // unbounded call (`limit: None`) cannot finish in one go
        let big = r.chance(1, 8);
        let planted = if big { r.range(1001, 1012) as usize } else { r.range(1, 12) as usize };
        plant_legacy(&mut c, &mut r, planted);
        if big {
            out.count("c11.migrations_longer_than_default_page");
        }
        let total = legacy_left(&c);
        let r1 = pause_op(true).apply(&mut c);
        if !r1.ok() {
            out.violation("C11", "owner_can_pause", "owner could not pause with legacy entries present".into());
        }
        let mut guard = 0;
        while legacy_left(&c) > 0 && out.violations.is_empty() && guard < 100 {
            guard += 1;
            // unpausing (explicitly or by omission) must be refused
            for paused in [Some(false), None] {
                let mut c2 = c.clone();
                let d0 = c2.digest();
                let ru = Op::UpdateParams { sender: OWNER.into(), epoch: None, fee: None, threshold: None, paused }.apply(&mut c2);
                out.count("c11.unpause_rejected_with_legacy_entries");
                // "can not be unpaused": judged on the switch afterwards (a rejection and an accepted call that leaves
                // the hub paused both satisfy it); an explicit `false` that is accepted must not have changed anything
                let still_paused = c2.q::<h::Parameters, _>(HUB, &h::QueryMsg::Parameters {}).map(|p| p.paused.unwrap_or(false)).unwrap_or(false);
                if !still_paused || (!ru.ok() && c2.digest() != d0) {
                    out.violation("C11", "no_unpause_with_legacy_entries", format!("UpdateParams(paused={:?}) unpaused the hub although {} legacy wait-list entries remain", paused, legacy_left(&c)));
                }
            }
            // still paused: user operations are blocked
            let mut c3 = c.clone();
            if (Op::Bond { user: USERS[0].into(), amount: 10 }).apply(&mut c3).ok() {
                out.violation("C11", "blocked_while_paused", "Bond succeeded during the legacy migration".into());
            }
            let before = legacy_left(&c);
            // page size: small explicit limits, or the default page (None = 1000 entries)
            let limit: Option<u32> = if before > 20 { if r.chance(2, 3) { None } else { Some(r.range(400, 1500) as u32) } } else { Some(r.range(1, 5) as u32) };
            let chunk = limit.unwrap_or(1000);
            let sender = if r.chance(1, 2) { STRANGER } else { OWNER };
            let mut rm_ = raw(sender, HUB, &h::ExecuteMsg::MigrateUnbondWaitList { limit }).apply(&mut c);
            if !rm_.ok() && sender != OWNER {
                // who may run the migration is not stated; the owner at least must be able to
                out.count("c11.migrations_refused_to_a_stranger");
                rm_ = raw(OWNER, HUB, &h::ExecuteMsg::MigrateUnbondWaitList { limit }).apply(&mut c);
            }
            out.count("c11.migrations");
            if !rm_.ok() {
                out.violation("C11", "migration_allowed_while_paused", format!("MigrateUnbondWaitList failed while paused: {:?}", rm_.tx.map(|t| t.err)));
                break;
            }
            let after = legacy_left(&c);
            // how many entries one call moves is the contract's business (page caps and minimum pages are fine); it
            // must make progress
            let _ = chunk;
            if after >= before {
                out.violation("C11", "migration_moves_entries", format!("migration of up to {} entries moved {} ({} -> {})", chunk, before as i64 - after as i64, before, after));
            }
        }
        if out.violations.is_empty() {
            let params: h::Parameters = c.q(HUB, &h::QueryMsg::Parameters {}).unwrap();
            if params.paused.unwrap_or(false) {
                // allowed behaviour is the automatic unpause at completion; if it did not happen the owner must be able to
                if !pause_op(false).apply(&mut c).ok() {
                    out.violation("C11", "owner_can_unpause", "hub stays paused after the migration completed".into());
                }
            } else {
                out.count("c11.auto_unpause_after_migration");
            }
            // migrated entries are reported faithfully and nothing else changed
            let mut n_new = 0;
            for i in 0..5usize {
                if let Ok(rq) = c.q::<h::UnbondRequestsResponse, _>(HUB, &serde_json::json!({"unbond_requests": {"address": format!("legacy{}", i)}})) {
                    n_new += rq.requests.len();
                }
            }
            if n_new != total {
                out.violation("C11", "migration_moves_entries", format!("{} legacy entries planted but {} visible after migration", total, n_new));
            }
            out.distinct(&("migration", total.min(12)));
        }
    }
    let cells = out.counters.get("c11.paused_cells").cloned().unwrap_or(0);
    HistoryReport { index, out, steps: steps + cells, ok_steps: 0, cfg: cfg.describe(), log, op_kinds: Default::default() }
}

fn c11_cells(w: &World, samples: &[Sample], out: &mut Out, log: &mut Vec<serde_json::Value>) {
    let owner = owner_of(w, HUB).unwrap_or_default();
    let s0 = snap::take(w);
    let shape = (s0.req_b + s0.req_s > 0, s0.history.iter().filter(|h| !h.released).count().min(3), s0.bsei.supply > 0, s0.stsei.supply > 0);
    for s in samples {
        for (sender, class) in sender_classes(w, HUB) {
            let mut c = w.clone();
            let d0 = c.digest();
            let funds: Vec<cosmwasm_std::Coin> = s.funds.iter().map(|(a, d)| coin(*a, d)).collect();
            let r = c.tx(&sender, HUB, &s.msg, &funds);
            out.count("c11.paused_cells");
            let exempt = (s.variant == "UpdateParams" && sender == owner) || s.variant == "MigrateUnbondWaitList";
            out.distinct(&("paused_cell", s.variant, s.payload, class, shape, r.ok));
            if exempt {
                if s.variant == "UpdateParams" && r.ok {
                    out.count("c11.owner_update_params_while_paused");
                }
                continue;
            }
            if r.ok {
                out.violation("C11", "blocked_while_paused", format!("hub {} (payload {}) by {} ({}) succeeded while paused", s.variant, s.payload, sender, class));
                return;
            }
            if c.digest() != d0 {
                out.violation("C11", "blocked_while_paused", format!("rejected hub {} by {} changed the state while paused", s.variant, sender));
                return;
            }
            if r.trace.execs.iter().any(|e| e.callee == HUB && e.handler_ok) {
                out.violation("C11", "blocked_while_paused", format!("hub {} by {} was accepted by the hub while paused; the transaction only failed later: {}", s.variant, sender, r.err));
                return;
            }
            out.count("c11.paused_cells_rejected");
            if log.len() < 60 {
                log.push(json!({"paused_cell": s.variant, "sender_class": class, "err": r.err.chars().take(60).collect::<String>()}));
            }
        }
    }
    // through the token Send hooks
    for (tok, bal) in [(Tok::B, &s0.bsei), (Tok::St, &s0.stsei)] {
        if let Some((holder, b)) = bal.balances.iter().find(|(a, b)| **b > 0 && USERS.contains(&a.as_str())) {
            for op in [Op::Unbond { user: holder.clone(), tok, amount: (*b).min(7), owner: None }, Op::Convert { user: holder.clone(), tok, amount: (*b).min(7), owner: None }] {
                let mut c = w.clone();
                let d0 = c.digest();
                let r = op.apply(&mut c);
                out.count("c11.hook_cells_via_token_send");
                let hub_accepted = r.trace().map(|t| t.execs.iter().any(|e| e.callee == HUB && e.handler_ok)).unwrap_or(false);
                if r.ok() || c.digest() != d0 || hub_accepted {
                    out.violation("C11", "blocked_while_paused", format!("{} through the token's Send hook was accepted by the hub while paused", op.kind()));
                    return;
                }
            }
        }
    }
}

// ---------------------------------------------------------------------------------------------
// C20

fn odd_decimal(r: &mut Rng) -> Decimal {
    let v = ["0", "0.000000000000000001", "0.05", "0.5", "0.999999999999999999", "1", "1.000000000000000001", "2", "340282366920938463463.374607431768211455", "0.3"];
    dec(r.pick(&v))
}

fn opt<T>(r: &mut Rng, f: impl FnOnce(&mut Rng) -> T) -> Option<T> {
    if r.chance(1, 2) {
        Some(f(r))
    } else {
        None
    }
}

fn odd_addr(r: &mut Rng) -> String {
    let v = [STRANGER, "abc", "newcontract", KEEPER, HUB, "x", "", "UPPERCASE", "a-very-long-address-that-is-still-shorter-than-ninety-bytes-0123456789"];
    r.pick(&v).to_string()
}

fn odd_denom(r: &mut Rng) -> String {
    let v = [USEI, KUSD, UATOM, "", "weird denom", "ibc/27394FB092D2ECCD56123C74F36E4C1F926001CEADA9CA97EA622B25F41E5EB2"];
    r.pick(&v).to_string()
}

#[derive(Clone, Debug, PartialEq)]
struct RefCfg {
    hub_params: h::Parameters,
    hub_cfg: h::ConfigResponse,
    disp: basset::dispatcher::ConfigResponse,
    reward: rw::ConfigResponse,
    registry_hub: String,
}

fn cfg_fields(x: &RefCfg) -> BTreeMap<String, serde_json::Value> {
    let mut m = BTreeMap::new();
    let parts = [
        ("hub_params", serde_json::to_value(&x.hub_params).unwrap_or_default()),
        ("hub_cfg", serde_json::to_value(&x.hub_cfg).unwrap_or_default()),
        ("dispatcher", serde_json::to_value(&x.disp).unwrap_or_default()),
        ("reward", serde_json::to_value(&x.reward).unwrap_or_default()),
    ];
    for (p, v) in parts {
        if let Some(o) = v.as_object() {
            for (k, f) in o {
                // the pause flag: `null` and `false` both mean "not paused"
                let f = if p == "hub_params" && k == "paused" && f.is_null() { serde_json::Value::Bool(false) } else { f.clone() };
                m.insert(format!("{}.{}", p, k), f);
            }
        }
    }
    m.insert("registry.hub_contract".into(), serde_json::Value::String(x.registry_hub.clone()));
    m
}

/// C20 speaks about the fields an update omits: a field whose value the message does not change (reference record
/// before == reference record after) must be stored as before. How a *supplied* value is stored (clamped, normalised,
/// de-duplicated) is the contract's business and is covered by the range / immutability clauses only.
fn omitted_field_changed(before: &RefCfg, expected: &RefCfg, after: &RefCfg) -> Option<String> {
    let (b, e, a) = (cfg_fields(before), cfg_fields(expected), cfg_fields(after));
    for (k, vb) in b.iter() {
        if e.get(k) == Some(vb) && a.get(k) != Some(vb) {
            return Some(k.clone());
        }
    }
    None
}

fn read_cfg(w: &World) -> Result<RefCfg, String> {
    use cosmwasm_std::Api;
    Ok(RefCfg {
        hub_params: w.q(HUB, &h::QueryMsg::Parameters {})?,
        hub_cfg: w.q(HUB, &h::QueryMsg::Config {})?,
        disp: w.q(DISPATCHER, &dm::QueryMsg::Config {})?,
        reward: w.q(REWARD, &rw::QueryMsg::Config {})?,
        registry_hub: registry_cfg_field(w, "hub_contract").ok_or_else(|| "registry Config query".to_string())?,
    })
}

fn c20_world(seed: u64, index: u64, _thorough: bool) -> HistoryReport {
    let mut r = Rng::derive(seed, 20, index);
    let mut cfg = random_cfg(&mut r);
    let mut out = Out::default();
    let mut log: Vec<serde_json::Value> = vec![];
    // ---- instantiate with arbitrary parameters
    cfg.peg_recovery_fee = odd_decimal(&mut r);
    cfg.er_threshold = odd_decimal(&mut r);
    cfg.keeper_rate = odd_decimal(&mut r);
    let staged = WorldOpts { skip_bsei_token: r.chance(1, 4), skip_stsei_token: r.chance(1, 4), ..Default::default() };
    let built = build_world_with(&cfg, &staged);
    let one = Decimal::one();
    let should_fail = cfg.peg_recovery_fee > one || cfg.keeper_rate > one;
    if should_fail {
        out.count("c20.instantiates_out_of_range_attempted");
    }
    if cfg.er_threshold > one {
        out.count("c20.instantiates_with_threshold_above_one");
    }
    log.push(json!({"instantiate": {"peg_recovery_fee": cfg.peg_recovery_fee.to_string(), "er_threshold": cfg.er_threshold.to_string(), "keeper_rate": cfg.keeper_rate.to_string()}, "accepted": built.is_ok()}));
    let mut w = match built {
        Ok(w) => {
            // out-of-range parameters may be rejected or clamped: what is judged is what ends up stored
            if should_fail {
                out.count("c20.out_of_range_instantiates_accepted");
                match read_cfg(&w) {
                    Ok(x) => {
                        if x.hub_params.peg_recovery_fee > one || x.disp.krp_keeper_rate > one {
                            out.violation("C20", "instantiate_range", format!("instantiate with fee {} / keeper rate {} stored fee {} / keeper rate {}", cfg.peg_recovery_fee, cfg.keeper_rate, x.hub_params.peg_recovery_fee, x.disp.krp_keeper_rate));
                        }
                    }
                    Err(e) => out.violation("C20", "config_queries", e),
                }
            }
            w
        }
        Err(e) => {
            if !should_fail {
                // whether a deployment with in-range values may still be refused is not the property's subject
                // (anti-vacuity is guarded by the required counters)
                let _ = e;
                out.count("c20.in_range_instantiates_rejected");
            } else {
                out.count("c20.instantiates_rejected");
                out.distinct(&("instantiate_rejected", cfg.peg_recovery_fee > one, cfg.keeper_rate > one));
            }
            return HistoryReport { index, out, steps: 1, ok_steps: 0, cfg: cfg.describe(), log, op_kinds: Default::default() };
        }
    };
    let mut steps = 1u64;
    let mut rc = match read_cfg(&w) {
        Ok(x) => x,
        Err(e) => {
            out.violation("C20", "config_queries", e);
            return HistoryReport { index, out, steps, ok_steps: 0, cfg: cfg.describe(), log, op_kinds: Default::default() };
        }
    };
    if cfg.er_threshold > one {
        out.count("c20.threshold_clamped");
        // "never exceed 1": clamped to 1 or replaced by another legal value
        if rc.hub_params.er_threshold > one {
            out.violation("C20", "threshold_at_most_one", format!("threshold {} stored as {}", cfg.er_threshold, rc.hub_params.er_threshold));
        }
    }
    let denom0 = rc.hub_params.underlying_coin_denom.clone();
    let stdenom0 = rc.disp.stsei_reward_denom.clone();
    let n = r.range(10, 60);
    for _ in 0..n {
        if !out.violations.is_empty() {
            break;
        }
        steps += 1;
        // owners may change through two-step transfers
        let owners: BTreeMap<&str, String> = OWNABLE.iter().map(|c| (*c, owner_of(&w, c).unwrap_or_default())).collect();
        let k = r.below(12);
        let by_owner = !r.chance(1, 8);
        let (contract, name, msg, mask, mut expected): (&str, &str, Binary, u32, RefCfg) = match k {
            0 | 1 | 2 => {
                let e = opt(&mut r, |r| *r.pick(&[0u64, 1, 30, u64::MAX]));
                let ub = opt(&mut r, |r| *r.pick(&[0u64, 1, 210, u64::MAX]));
                let f = opt(&mut r, odd_decimal);
                let t = opt(&mut r, odd_decimal);
                let rd = opt(&mut r, odd_denom);
                let pz = match r.below(3) {
                    0 => None,
                    1 => Some(true),
                    _ => Some(false),
                };
                let mut ex = rc.clone();
                ex.hub_params = h::Parameters {
                    epoch_period: e.unwrap_or(rc.hub_params.epoch_period),
                    unbonding_period: ub.unwrap_or(rc.hub_params.unbonding_period),
                    peg_recovery_fee: f.unwrap_or(rc.hub_params.peg_recovery_fee),
                    er_threshold: t.unwrap_or(rc.hub_params.er_threshold).min(one),
                    reward_denom: rd.clone().unwrap_or(rc.hub_params.reward_denom.clone()),
                    paused: pz,
                    ..rc.hub_params.clone()
                };
                let mask = (e.is_some() as u32) | (ub.is_some() as u32) << 1 | (f.is_some() as u32) << 2 | (t.is_some() as u32) << 3 | (rd.is_some() as u32) << 4 | (pz.is_some() as u32) << 5;
                out.count("c20.hub_params_updates");
                (HUB, "hub.UpdateParams", Binary::from(serde_json::json!({"update_params": {"epoch_period": e, "unbonding_period": ub, "peg_recovery_fee": f, "er_threshold": t, "paused": pz, "reward_denom": rd}}).to_string().into_bytes()), mask, ex)
            }
            3 | 4 => {
                let d = opt(&mut r, odd_addr);
                let v = opt(&mut r, odd_addr);
                let b = if r.chance(1, 4) { Some(odd_addr(&mut r)) } else { None };
                let s = if r.chance(1, 4) { Some(odd_addr(&mut r)) } else { None };
                let a = opt(&mut r, odd_addr);
                let rwc = opt(&mut r, odd_addr);
                let up = opt(&mut r, odd_addr);
                let mut ex = rc.clone();
                if let Some(x) = &d {
                    ex.hub_cfg.reward_dispatcher_contract = Some(x.to_lowercase());
                }
                if let Some(x) = &v {
                    ex.hub_cfg.validators_registry_contract = Some(x.to_lowercase());
                }
                if let Some(x) = &a {
                    ex.hub_cfg.airdrop_registry_contract = Some(x.to_lowercase());
                }
                if let Some(x) = &up {
                    ex.hub_cfg.update_reward_index_addr = x.to_lowercase();
                }
                if b.is_some() || s.is_some() {
                    out.count("c20.token_address_update_attempts");
                }
                // staged deployment: the first registration of a token address is accepted, later ones never
                if let Some(x) = &b {
                    if rc.hub_cfg.bsei_token_contract.is_none() {
                        ex.hub_cfg.bsei_token_contract = Some(x.to_lowercase());
                        out.count("c20.first_token_registrations");
                    }
                }
                if let Some(x) = &s {
                    if rc.hub_cfg.stsei_token_contract.is_none() {
                        ex.hub_cfg.stsei_token_contract = Some(x.to_lowercase());
                        out.count("c20.first_token_registrations");
                    }
                }
                let mask = (d.is_some() as u32) | (v.is_some() as u32) << 1 | (b.is_some() as u32) << 2 | (s.is_some() as u32) << 3 | (a.is_some() as u32) << 4 | (rwc.is_some() as u32) << 5 | (up.is_some() as u32) << 6;
                (
                    HUB,
                    "hub.UpdateConfig",
                    Binary::from(serde_json::json!({"update_config": {"rewards_dispatcher_contract": d, "validators_registry_contract": v, "bsei_token_contract": b, "stsei_token_contract": s, "airdrop_registry_contract": a, "rewards_contract": rwc, "update_reward_index_addr": up}}).to_string().into_bytes()),
                    mask,
                    ex,
                )
            }
            5 | 6 | 7 => {
                let hc = opt(&mut r, odd_addr);
                let br = opt(&mut r, odd_addr);
                let sd = if r.chance(1, 5) { Some(odd_denom(&mut r)) } else { None };
                let bd = opt(&mut r, odd_denom);
                let ka = opt(&mut r, odd_addr);
                let kr = opt(&mut r, odd_decimal);
                let mut ex = rc.clone();
                if let Some(x) = &hc {
                    ex.disp.hub_contract = x.to_lowercase();
                }
                if let Some(x) = &br {
                    ex.disp.bsei_reward_contract = x.to_lowercase();
                }
                if let Some(x) = &bd {
                    ex.disp.bsei_reward_denom = x.clone();
                }
                if let Some(x) = &ka {
                    ex.disp.krp_keeper_address = x.to_lowercase();
                }
                if let Some(x) = kr {
                    ex.disp.krp_keeper_rate = x;
                }
                if sd.is_some() {
                    out.count("c20.stsei_denom_update_attempts");
                }
                let mask = (hc.is_some() as u32) | (br.is_some() as u32) << 1 | (sd.is_some() as u32) << 2 | (bd.is_some() as u32) << 3 | (ka.is_some() as u32) << 4 | (kr.is_some() as u32) << 5;
                out.count("c20.dispatcher_config_updates");
                (DISPATCHER, "dispatcher.UpdateConfig", Binary::from(serde_json::json!({"update_config": {"hub_contract": hc, "bsei_reward_contract": br, "stsei_reward_denom": sd, "bsei_reward_denom": bd, "krp_keeper_address": ka, "krp_keeper_rate": kr}}).to_string().into_bytes()), mask, ex)
            }
            8 => {
                let mut ex = rc.clone();
                match r.below(3) {
                    0 => {
                        let d = odd_denom(&mut r);
                        let add = r.chance(1, 2);
                        if add {
                            ex.disp.swap_denoms.push(d.clone());
                        } else {
                            ex.disp.swap_denoms.retain(|x| x != &d);
                        }
                        (DISPATCHER, "dispatcher.UpdateSwapDenom", bin(&dm::ExecuteMsg::UpdateSwapDenom { swap_denom: d, is_add: add }), add as u32, ex)
                    }
                    1 => {
                        let a = odd_addr(&mut r);
                        ex.disp.swap_contract = a.to_lowercase();
                        (DISPATCHER, "dispatcher.UpdateSwapContract", bin(&dm::ExecuteMsg::UpdateSwapContract { swap_contract: a }), 0, ex)
                    }
                    _ => {
                        let a = odd_addr(&mut r);
                        ex.disp.oracle_contract = a.to_lowercase();
                        (DISPATCHER, "dispatcher.UpdateOracleContract", bin(&dm::ExecuteMsg::UpdateOracleContract { oracle_contract: a }), 0, ex)
                    }
                }
            }
            9 => {
                let hc = opt(&mut r, odd_addr);
                let rd = opt(&mut r, odd_denom);
                let sc = opt(&mut r, odd_addr);
                let mut ex = rc.clone();
                if let Some(x) = &hc {
                    ex.reward.hub_contract = x.to_lowercase();
                }
                if let Some(x) = &rd {
                    ex.reward.reward_denom = x.clone();
                }
                if let Some(x) = &sc {
                    ex.reward.swap_contract = x.to_lowercase();
                }
                let mask = (hc.is_some() as u32) | (rd.is_some() as u32) << 1 | (sc.is_some() as u32) << 2;
                (REWARD, "reward.UpdateConfig", Binary::from(serde_json::json!({"update_config": {"hub_contract": hc, "reward_denom": rd, "swap_contract": sc}}).to_string().into_bytes()), mask, ex)
            }
            10 => {
                let hc = opt(&mut r, odd_addr);
                let mut ex = rc.clone();
                if let Some(x) = &hc {
                    ex.registry_hub = x.to_lowercase();
                }
                (REGISTRY, "registry.UpdateConfig", Binary::from(serde_json::json!({"update_config": {"hub_contract": hc.clone()}}).to_string().into_bytes()), hc.is_some() as u32, ex)
            }
            _ => {
                // ownership hand-over of a random contract (keeps the sequences honest about who the owner is)
                let c = *r.pick(&OWNABLE);
                let to = *r.pick(&[NOMINEE, NOMINEE2, OWNER]);
                let okk = transfer_ownership(&mut w, c, to) && (r.chance(1, 2) || accept_ownership(&mut w, c, to));
                let _ = okk;
                match read_cfg(&w) {
                    Ok(x) => {
                        // only owner fields may have changed
                        let mut y = x.clone();
                        y.hub_cfg.owner = rc.hub_cfg.owner.clone();
                        y.disp.owner = rc.disp.owner.clone();
                        y.reward.owner = rc.reward.owner.clone();
                        if y != rc {
                            out.violation("C20", "ownership_leaves_config", "an ownership transfer changed configuration values".into());
                        }
                        rc = x;
                    }
                    Err(e) => out.violation("C20", "config_queries", e),
                }
                continue;
            }
        };
        let sender = if by_owner { owners.get(contract).cloned().unwrap_or_default() } else { STRANGER.to_string() };
        let d0 = w.digest();
        let res = w.tx(&sender, contract, &msg, &[]);
        let after = match read_cfg(&w) {
            Ok(x) => x,
            Err(e) => {
                out.violation("C20", "config_queries", format!("after {}: {}", name, e));
                break;
            }
        };
        if log.len() < 40 {
            log.push(json!({"msg": String::from_utf8_lossy(msg.as_slice()), "contract": contract, "by_owner": by_owner, "accepted": res.ok, "err": res.err.chars().take(80).collect::<String>()}));
        }
        out.distinct(&(name, mask, res.ok, by_owner));
        if res.ok {
            out.count("c20.updates_accepted");
            // C20 is quantified over the owner's messages; who else may send them is C10's subject (counted)
            if !by_owner {
                out.count("c20.updates_by_non_owner_accepted");
            }
            // hub UpdateConfig sets the owner-independent fields only; keep the owner as it is
            expected.hub_cfg.owner = after.hub_cfg.owner.clone();
            expected.hub_cfg.token_contract = expected.hub_cfg.bsei_token_contract.clone();
            if let Some(path) = omitted_field_changed(&rc, &expected, &after) {
                let _ = &path;
                out.violation(
                    "C20",
                    "omitted_fields_unchanged",
                    format!("{} {}: field {} was not supplied but its stored value changed.\n before {:?}\n after  {:?}", name, String::from_utf8_lossy(msg.as_slice()), path, rc, after),
                );
            }
            out.count("c20.partial_updates_checked");
            rc = after.clone();
        } else {
            out.count("c20.updates_rejected");
            if res.err.contains("stSei reward denom") {
                out.count("c20.stsei_denom_update_rejected");
            }
            if res.err.contains("token address is forbidden") {
                out.count("c20.token_address_update_rejected");
            }
            if after != rc || w.digest() != d0 {
                out.violation("C20", "rejected_update_changes_nothing", format!("rejected {} changed the configuration", name));
            }
        }
        // ranges and immutables, after every message
        if after.hub_params.peg_recovery_fee > one || after.hub_params.er_threshold > one {
            out.violation("C20", "hub_ranges", format!("hub stores fee {} threshold {}", after.hub_params.peg_recovery_fee, after.hub_params.er_threshold));
        }
        if after.disp.krp_keeper_rate > one {
            out.violation("C20", "keeper_rate_at_most_one", format!("dispatcher stores keeper rate {}", after.disp.krp_keeper_rate));
        }
        if after.hub_params.underlying_coin_denom != denom0 {
            out.violation("C20", "underlying_denom_immutable", format!("underlying coin denom {} -> {}", denom0, after.hub_params.underlying_coin_denom));
        }
        if after.disp.stsei_reward_denom != stdenom0 {
            out.violation("C20", "stsei_reward_denom_immutable", format!("stSei reward denom {} -> {}", stdenom0, after.disp.stsei_reward_denom));
        }
    }
    HistoryReport { index, out, steps, ok_steps: 0, cfg: cfg.describe(), log, op_kinds: Default::default() }
}
