//! C03 — reported exchange rates equal backing over claims and price every mint / redeem.

use crate::chain::Ev;
use crate::mon::*;
use crate::ops::*;
use crate::rng::Rng;
use crate::setup::*;
use crate::snap::Snap;

const P: &str = "C03";

#[derive(Default)]
pub struct C03 {}

pub fn undelegated_in(tr: &crate::chain::Trace) -> u128 {
    tr.evs()
        .filter_map(|e| match e {
            Ev::Undelegate { delegator, amount, .. } if delegator == HUB => Some(*amount),
            _ => None,
        })
        .sum()
}

/// proportional fee cap: floor(base * fee_rate)
pub fn prop_cap(base: u128, s: &Snap) -> u128 {
    mul_rate(base, s.params.peg_recovery_fee.atomics().u128())
}

pub fn below_threshold(s: &Snap) -> bool {
    s.rb < s.params.er_threshold.atomics().u128()
}

fn consistency(s: &Snap, out: &mut Out, when: &str) {
    if s.delegations.is_empty() || s.pool_b + s.pool_s == 0 {
        return;
    }
    let eb = rate_of(s.pool_b, s.claims_b());
    let es = rate_of(s.pool_s, s.claims_s());
    out.count("c03.consistency_checks");
    if s.req_b + s.req_s > 0 {
        out.count("c03.consistency_with_open_requests");
    }
    match rate_class(s.rb) {
        0 => out.count("c03.consistency_rate_below_1"),
        1 => out.count("c03.consistency_rate_equal_1"),
        _ => out.count("c03.consistency_rate_above_1"),
    }
    if s.rs > E18 {
        out.count("c03.consistency_stsei_rate_above_1");
    }
    if s.rb != eb {
        out.violation(P, "rate_consistency", format!("{}: bSei rate {} but pool {} / (supply {} + requested {}) = {}", when, s.rb, s.pool_b, s.bsei.supply, s.req_b, eb));
    }
    if s.rs != es {
        out.violation(P, "rate_consistency", format!("{}: stSei rate {} but pool {} / (supply {} + requested {}) = {}", when, s.rs, s.pool_s, s.stsei.supply, s.req_s, es));
    }
}

/// Coins leaving the two pools because a batch was closed inside this transaction (the shipped hub closes batches
/// inside unbonds only; which message does it is not fixed by the properties): per pool, the requests valued at the
/// rates recorded in the new history entries.
pub fn closed_in_step(pre: &Snap, post: &Snap) -> (u128, u128) {
    let mut b = 0u128;
    let mut s = 0u128;
    for h in post.history.iter().filter(|h| pre.hist(h.batch_id).is_none()) {
        b += mul_rate(h.bsei_amount, h.bsei_applied);
        s += mul_rate(h.stsei_amount, h.stsei_applied);
    }
    (b, s)
}

impl Monitor for C03 {
    fn on_step(&mut self, c: &Ctx, _rng: &mut Rng, out: &mut Out) {
        consistency(c.post, out, &format!("after step {} ({})", c.step, c.op.kind()));
        if !c.res.ok() {
            return;
        }
        let tr = c.res.trace();
        let (pre, post) = (c.pre, c.post);
        // (cb, cs): what a batch closed in this very transaction took out of the pools
        let (cb, cs) = if matches!(c.op, Op::Unbond { .. }) { (0, 0) } else { closed_in_step(pre, post) };
        match c.op {
            Op::Bond { user, amount } => {
                let minted = post.bsei.supply - pre.bsei.supply;
                let got = post.bsei.balances.get(user).cloned().unwrap_or(0) - pre.bsei.balances.get(user).cloned().unwrap_or(0);
                let m0 = div_rate(*amount, pre.rb);
                let cap = if below_threshold(pre) { prop_cap(m0, pre) } else { 0 };
                if minted != got {
                    out.violation(P, "bond_mint", format!("bond: supply grew by {} but {} received {}", minted, user, got));
                }
                if minted > m0 || minted + cap + ((cap > 0) as u128) < m0 {
                    out.violation(P, "bond_mint", format!("bond of {} at rate {}: minted {} but floor(payment/rate) = {} (fee cap {})", amount, pre.rb, minted, m0, cap));
                }
                // floor(payment / rate) may be 0 for a payment below one token's worth: issuing nothing for it is what
                // the formula says (the shipped hub fails such a bond inside the token's zero-mint check); counted
                if minted == 0 {
                    out.count("c03.operations_issuing_nothing");
                }
                if post.raw_pool_b + cb != pre.pool_b + amount || post.raw_pool_s + cs != pre.pool_s {
                    out.violation(P, "bond_pool", format!("bond of {}: pools ({},{}) -> ({},{})", amount, pre.pool_b, pre.pool_s, post.raw_pool_b, post.raw_pool_s));
                }
                out.count(if minted < m0 { "c03.mints_with_fee" } else { "c03.mints_without_fee" });
                out.distinct(&("bond", rate_class(pre.rb), decade(*amount), minted < m0, pre.req_b > 0));
            }
            Op::BondStSei { user, amount } => {
                let minted = post.stsei.supply - pre.stsei.supply;
                let got = post.stsei.balances.get(user).cloned().unwrap_or(0) - pre.stsei.balances.get(user).cloned().unwrap_or(0);
                let m0 = div_rate(*amount, pre.rs);
                if minted != m0 || got != m0 {
                    out.violation(P, "bond_mint", format!("stSei bond of {} at rate {}: minted {} (recipient +{}), expected {}", amount, pre.rs, minted, got, m0));
                }
                if post.raw_pool_s + cs != pre.pool_s + amount || post.raw_pool_b + cb != pre.pool_b {
                    out.violation(P, "bond_pool", format!("stSei bond of {}: pools ({},{}) -> ({},{})", amount, pre.pool_b, pre.pool_s, post.raw_pool_b, post.raw_pool_s));
                }
                out.count("c03.mints_without_fee");
                out.distinct(&("bond_st", rate_class(pre.rs), decade(*amount), pre.req_s > 0));
            }
            Op::Convert { user, tok: Tok::St, amount, .. } => {
                // stSei -> bSei
                let equiv = mul_rate(*amount, pre.rs);
                let m0 = div_rate(equiv, pre.rb);
                let cap = if below_threshold(pre) { prop_cap(m0, pre) } else { 0 };
                let minted = post.bsei.supply - pre.bsei.supply;
                let got = post.bsei.balances.get(user).cloned().unwrap_or(0) - pre.bsei.balances.get(user).cloned().unwrap_or(0);
                let burnt = pre.stsei.supply - post.stsei.supply;
                if burnt != *amount {
                    out.violation(P, "convert", format!("convert stSei->bSei of {}: stSei supply fell by {}", amount, burnt));
                }
                // (one unit of slack below: the proportional cap may be applied to the payment or to the tokens)
                if minted != got || minted > m0 || minted + cap + ((cap > 0) as u128) < m0 {
                    out.violation(P, "convert", format!("convert stSei->bSei of {}: value {} at rates ({},{}) should mint {} (fee cap {}), minted {} (recipient +{})", amount, equiv, pre.rs, pre.rb, m0, cap, minted, got));
                }
                if post.raw_pool_b + cb != pre.pool_b + equiv || post.raw_pool_s + cs + equiv != pre.pool_s {
                    out.violation(P, "convert_pool", format!("convert stSei->bSei: value {} but pools ({},{}) -> ({},{})", equiv, pre.pool_b, pre.pool_s, post.raw_pool_b, post.raw_pool_s));
                }
                out.count("c03.converts_stsei_to_bsei");
                out.distinct(&("conv_st_b", rate_class(pre.rb), rate_class(pre.rs), decade(*amount), minted < m0));
            }
            Op::Convert { user, tok: Tok::B, amount, .. } => {
                // bSei -> stSei (fee is taken on the burnt bSei)
                let nofee_equiv = mul_rate(*amount, pre.rb);
                let cap = if below_threshold(pre) { prop_cap(*amount, pre) } else { 0 };
                let min_equiv = mul_rate(*amount - cap.min(*amount), pre.rb);
                let equiv = pre.pool_b.saturating_sub(post.raw_pool_b + cb);
                let minted = post.stsei.supply - pre.stsei.supply;
                let got = post.stsei.balances.get(user).cloned().unwrap_or(0) - pre.stsei.balances.get(user).cloned().unwrap_or(0);
                let burnt = pre.bsei.supply - post.bsei.supply;
                if burnt != *amount {
                    out.violation(P, "convert", format!("convert bSei->stSei of {}: bSei supply fell by {}", amount, burnt));
                }
                if equiv > nofee_equiv || equiv < min_equiv {
                    out.violation(P, "convert", format!("convert bSei->stSei of {} at rate {}: moved {} coins, allowed [{}, {}]", amount, pre.rb, equiv, min_equiv, nofee_equiv));
                }
                let m = div_rate(equiv, pre.rs);
                if minted != m || got != m {
                    out.violation(P, "convert", format!("convert bSei->stSei: value {} at stSei rate {} should mint {}, minted {} (recipient +{})", equiv, pre.rs, m, minted, got));
                }
                if post.raw_pool_s + cs != pre.pool_s + equiv {
                    out.violation(P, "convert_pool", format!("convert bSei->stSei: value {} but stSei pool {} -> {}", equiv, pre.pool_s, post.raw_pool_s));
                }
                out.count("c03.converts_bsei_to_stsei");
                out.distinct(&("conv_b_st", rate_class(pre.rb), rate_class(pre.rs), decade(*amount), equiv < nofee_equiv));
            }
            Op::Unbond { tok, amount, .. } => {
                let und = undelegated_in(tr.unwrap());
                if post.batch_id != pre.batch_id {
                    // the batch was closed by this unbond: its history entry is the record of what was priced
                    let h = match post.hist(pre.batch_id) {
                        Some(h) => h,
                        None => {
                            out.violation(P, "undelegation", format!("batch {} closed without a history entry", pre.batch_id));
                            return;
                        }
                    };
                    // rates at that moment, from the observable totals
                    let (exp_rb, exp_rs) = match tok {
                        Tok::B => (rate_of(pre.pool_b, pre.bsei.supply - amount + h.bsei_amount), pre.rs),
                        Tok::St => (pre.rb, rate_of(pre.pool_s, pre.stsei.supply - amount + h.stsei_amount)),
                    };
                    // requests against a pool that slashing has wiped out cannot be undelegated at all: the reported
                    // rate is then only the definitional 1 ("1 when either is zero") and the property's pricing clause
                    // speaks about bonded stake; such requests are worth nothing
                    let exp_rb = if pre.pool_b == 0 { 0 } else { exp_rb };
                    let exp_rs = if pre.pool_s == 0 { 0 } else { exp_rs };
                    let expected = mul_rate(h.bsei_amount, exp_rb) + mul_rate(h.stsei_amount, exp_rs);
                    // accepted readings of "undelegated for floor(requests x rate) coins": (i) the triggering request is
                    // part of the batch and each token type is floored (shipped order) or the batch is floored once
                    // (at most one coin more); (ii) the batch is closed first, at the rates reported before this
                    // transaction, and the triggering request opens the next batch
                    let once = {
                        let x = cosmwasm_std::Uint256::from(h.bsei_amount) * cosmwasm_std::Uint256::from(exp_rb) + cosmwasm_std::Uint256::from(h.stsei_amount) * cosmwasm_std::Uint256::from(exp_rs);
                        (x / cosmwasm_std::Uint256::from(E18)).to_string().parse::<u128>().unwrap_or(u128::MAX)
                    };
                    let pre_rb = if pre.pool_b == 0 { 0 } else { pre.rb };
                    let pre_rs = if pre.pool_s == 0 { 0 } else { pre.rs };
                    let close_first = mul_rate(h.bsei_amount, pre_rb) + mul_rate(h.stsei_amount, pre_rs);
                    let ok_shipped = und >= expected && und <= once;
                    let ok_close_first = und == close_first;
                    if !ok_shipped && !ok_close_first {
                        out.violation(
                            P,
                            "undelegation",
                            format!(
                                "batch {}: requests ({} bSei, {} stSei) at rates ({}, {}) are worth {} but {} was undelegated",
                                pre.batch_id, h.bsei_amount, h.stsei_amount, exp_rb, exp_rs, expected, und
                            ),
                        );
                    }
                    out.count("c03.undelegating_unbonds");
                    out.distinct(&("undelegate", rate_class(exp_rb), rate_class(exp_rs), decade(und), h.bsei_amount > 0, h.stsei_amount > 0));
                } else if und != 0 {
                    out.violation(P, "undelegation", format!("{} undelegated although no batch was closed", und));
                }
            }
            _ => {}
        }
    }
}
