//! C19 — a global index update delivers all staking rewards to the right parties.

use crate::chain::Ev;
use crate::mon::*;
use crate::monitors::c01::total_released_claims;
use crate::ops::*;
use crate::rng::Rng;
use crate::setup::*;
use crate::snap::{self, Snap};
use cosmwasm_std::Uint256;

const P: &str = "C19";
pub const SIG_ZERO_KEEPER: &str = "C17:dispatch_rewards:zero_amount_transfer_to_keeper";
pub const SIG_ZERO_REWARD: &str = "C17:dispatch_rewards:zero_amount_transfer_to_reward_contract";

#[derive(Default)]
pub struct C19 {}

fn dispatcher_swaps_extra(c: &Ctx) -> bool {
    crate::monitors::c17::dispatcher_cfg(c.w_pre).map(|x| x.swap_denoms.iter().any(|d| d == UATOM)).unwrap_or(false)
}

/// exact accrued rewards of all holders, in units of 1e-18 reward coin
pub fn accrued_atomics(s: &Snap) -> Uint256 {
    let mut t = Uint256::zero();
    for h in s.holders.values() {
        // (global - index) * balance + pending, all with 18 decimals
        let d = s.global_index.saturating_sub(h.index);
        t += Uint256::from(d) * Uint256::from(h.balance) + Uint256::from(h.pending);
    }
    t
}

/// Classify a zero-coin bank rejection against the recorded finding. `lenient` is the trace of the same
/// transaction re-run with a bank that drops zero coins. The hit matches the finding only if every dropped
/// transfer was emitted by the dispatcher's DispatchRewards and is exactly the one the finding predicts from what
/// the dispatcher held at that moment: the keeper transfer when floor(held x rate) = 0, the reward-contract
/// transfer when held - floor(held x rate) = 0.
pub fn classify_zero_coin(err: &str, lenient: &crate::chain::Trace, keeper_rate: u128) -> Option<&'static str> {
    if !err.contains("bank: invalid coins: zero amount") {
        return None;
    }
    let disp_idx = lenient.execs.iter().position(|x| x.callee == DISPATCHER && x.msg.starts_with("{\"dispatch_rewards\""))?;
    // what the dispatcher forwarded per coin in that execution = what it held
    let mut held = std::collections::BTreeMap::<String, u128>::new();
    for e in lenient.events.iter().filter(|e| e.exec == disp_idx) {
        if let Ev::BankSend { from, coins, .. } = &e.ev {
            if from == DISPATCHER {
                for c in coins {
                    *held.entry(c.denom.clone()).or_insert(0) += c.amount.u128();
                }
            }
        }
    }
    for x in lenient.execs.iter().filter(|x| x.caller == DISPATCHER && x.callee == HUB && x.msg.starts_with("{\"bond_rewards\"")) {
        for c in x.funds.iter() {
            *held.entry(c.denom.clone()).or_insert(0) += c.amount.u128();
        }
    }
    let mut sig = None;
    let mut n = 0;
    for e in lenient.events.iter() {
        if let Ev::ZeroCoinSkipped { from, to, denom } = &e.ev {
            n += 1;
            if from != DISPATCHER || e.exec != disp_idx {
                return None;
            }
            let h = held.get(denom).cloned().unwrap_or(0);
            let keeper_part = mul_rate(h, keeper_rate);
            if to == KEEPER && h > 0 && keeper_part == 0 {
                sig = sig.or(Some(SIG_ZERO_KEEPER));
            } else if to == REWARD && denom == KUSD && h > 0 && h == keeper_part {
                sig = sig.or(Some(SIG_ZERO_REWARD));
            } else {
                return None;
            }
        }
    }
    if n == 0 {
        return None;
    }
    sig
}

impl C19 {
    fn judge(&self, c: &Ctx, res: &StepResult, post: &Snap, via_removal: bool, out: &mut Out) {
        let pre = c.pre;
        let tr = res.trace().unwrap();
        out.count("c19.updates_judged");
        // 1. rewards withdrawn from every validator the hub delegates to
        let withdrawn: Vec<&String> = tr
            .evs()
            .filter_map(|e| match e {
                Ev::WithdrawReward { delegator, validator } if delegator == HUB => Some(validator),
                _ => None,
            })
            .collect();
        for v in pre.delegations.keys() {
            // (inside RemoveValidator the redelegation itself pays out the rewards of the validators it touches)
            // A validator with nothing pending needs no withdraw message: what is judged is that rewards that were
            // pending before are withdrawn in this transaction
            let had_pending = pre.pending_rewards.get(v).map(|x| *x > 0).unwrap_or(false) || c.w_pre.rewards.iter().any(|((d, val), m)| d == HUB && val == v && m.values().any(|x| *x > 0));
            if !via_removal && !withdrawn.contains(&v) {
                if had_pending {
                    out.violation(P, "withdraw_from_every_validator", format!("hub delegates to {} with rewards pending but did not withdraw them", v));
                } else {
                    out.count("c19.validators_without_pending_rewards_not_withdrawn");
                }
            }
        }
        if !post.pending_rewards.is_empty() && post.pending_rewards.values().any(|x| *x > 0) {
            out.violation(P, "withdraw_from_every_validator", format!("rewards still pending after the update: {:?}", post.pending_rewards));
        }
        let n_pending_validators = c.w_pre.rewards.iter().filter(|((d, _), m)| d == HUB && m.values().any(|x| *x > 0)).count();
        if n_pending_validators >= 2 {
            out.count("c19.updates_with_rewards_on_2plus_validators");
        }
        if pre.pending_rewards.is_empty() && pre.bal(DISPATCHER, USEI) + pre.bal(DISPATCHER, KUSD) == 0 {
            out.count("c19.updates_with_nothing_pending");
        }
        // 2. nothing left in the dispatcher
        for d in [USEI, KUSD] {
            if post.bal(DISPATCHER, d) != 0 {
                out.violation(P, "dispatcher_keeps_nothing", format!("dispatcher still holds {} {} after the update", post.bal(DISPATCHER, d), d));
            }
        }
        // 3. no token balance or supply changed
        if pre.stsei != post.stsei || pre.bsei != post.bsei {
            out.violation(P, "tokens_untouched", "a token balance or supply changed during UpdateGlobalIndex".into());
        }
        // 4. stSei rate: raised by exactly the re-bonded amount; bSei rate untouched
        let rebond: u128 = tr
            .execs
            .iter()
            .filter(|e| e.callee == HUB && e.msg.starts_with("{\"bond_rewards\""))
            .map(|e| e.funds.iter().filter(|f| f.denom == USEI).map(|f| f.amount.u128()).sum::<u128>())
            .sum();
        let delegated: u128 = tr.evs().filter_map(|e| if let Ev::Delegate { delegator, amount, .. } = e { if delegator == HUB { Some(*amount) } else { None } } else { None }).sum();
        if rebond != delegated {
            out.violation(P, "rebond_delegated", format!("{} re-bonded but {} delegated", rebond, delegated));
        }
        if rebond > 0 {
            out.count("c19.updates_rebonding");
        }
        if !post.delegations.is_empty() && post.pool_b + post.pool_s > 0 {
            let exp_rs = rate_of(pre.pool_s + rebond, pre.claims_s());
            if post.pool_s != pre.pool_s + rebond || post.rs != exp_rs {
                out.violation(P, "stsei_rate", format!("re-bonded {}: stSei pool {} -> {} (expected {}), rate {} -> {} (expected {})", rebond, pre.pool_s, post.pool_s, pre.pool_s + rebond, pre.rs, post.rs, exp_rs));
            }
            if post.pool_b != pre.pool_b || (post.rb != pre.rb && pre.pool_b + pre.pool_s > 0 && !pre.delegations.is_empty()) {
                out.violation(P, "bsei_rate_untouched", format!("bSei pool/rate changed: ({},{}) -> ({},{})", pre.pool_b, pre.rb, post.pool_b, post.rb));
            }
        }
        // 5. keeper fee per coin
        // the rate the dispatcher is configured with right now (falls back to the deployment's rate)
        let kr = crate::monitors::c17::dispatcher_cfg(c.w_pre).map(|x| x.krp_keeper_rate.atomics().u128()).unwrap_or(c.cfg.keeper_rate.atomics().u128());
        let mut to_keeper = std::collections::BTreeMap::<String, u128>::new();
        let mut to_reward = 0u128;
        let mut disp_idx = None;
        for (i, e) in tr.execs.iter().enumerate() {
            if e.callee == DISPATCHER && e.msg.starts_with("{\"dispatch_rewards\"") {
                disp_idx = Some(i);
            }
        }
        for e in tr.events.iter() {
            if let Ev::BankSend { from, to, coins } = &e.ev {
                if from == DISPATCHER && Some(e.exec) == disp_idx {
                    for cn in coins {
                        if to == KEEPER {
                            *to_keeper.entry(cn.denom.clone()).or_insert(0) += cn.amount.u128();
                        } else if to == REWARD && cn.denom == KUSD {
                            to_reward += cn.amount.u128();
                        } else {
                            out.violation(P, "right_parties", format!("dispatcher sent {} to {}", cn, to));
                        }
                    }
                }
            }
        }
        // what the dispatcher held when DispatchRewards ran = what it forwarded (it ends with nothing)
        let held_usei = to_keeper.get(USEI).cloned().unwrap_or(0) + rebond;
        let held_kusd = to_keeper.get(KUSD).cloned().unwrap_or(0) + to_reward;
        // "minus the keeper fee": balance x rate; which way the last unit is rounded is C17's sentence
        if to_keeper.get(USEI).cloned().unwrap_or(0).abs_diff(mul_rate(held_usei, kr)) > 1 || to_keeper.get(KUSD).cloned().unwrap_or(0).abs_diff(mul_rate(held_kusd, kr)) > 1 {
            out.violation(P, "keeper_fee", format!("keeper received {:?} of holdings ({} usei, {} kusd) at rate {}", to_keeper, held_usei, held_kusd, c.cfg.keeper_rate));
        }
        for d in [USEI, KUSD] {
            let gain = post.bal(KEEPER, d) - pre.bal(KEEPER, d);
            if gain != to_keeper.get(d).cloned().unwrap_or(0) {
                out.violation(P, "keeper_fee", format!("keeper's {} balance grew by {} but {} was sent", d, gain, to_keeper.get(d).cloned().unwrap_or(0)));
            }
        }
        // 5b. the split follows the bonded stake the hub books for the two pools: what the dispatcher held in the
        // stSei reward coin when it dispatched equals (total reward value in that coin) x stSei pool / (both pools),
        // within the rounding of the share, the inverse price and two swap floors
        {
            let price = c.w_pre.price.atomics().u128();
            // the stake "the hub books": the stored pools, or the pools with a pending slash recognised (an update may
            // recognise slashing first) - either reading is accepted
            let mut split_ok = false;
            let mut split_msg = String::new();
            for (pb, ps) in [(pre.raw_pool_b, pre.raw_pool_s), (pre.pool_b, pre.pool_s)] {
            if pb + ps > 0 && price > 0 {
                use cosmwasm_std::Uint512;
                let other_kusd = if c.cfg.extra_denom && dispatcher_swaps_extra(c) {
                    let mut x = pre.bal(DISPATCHER, UATOM);
                    for e in tr.evs() {
                        if let Ev::RewardPaid { to, denom, amount, .. } = e {
                            if to == DISPATCHER && denom == UATOM {
                                x += amount;
                            }
                        }
                    }
                    mul_rate(x, c.w_pre.other_prices[UATOM].atomics().u128())
                } else {
                    0
                };
                let mut u0 = pre.bal(DISPATCHER, USEI);
                let mut k0 = pre.bal(DISPATCHER, KUSD) + other_kusd;
                for e in tr.evs() {
                    if let Ev::RewardPaid { to, denom, amount, .. } = e {
                        if to == DISPATCHER {
                            if denom == USEI {
                                u0 += amount;
                            } else if denom == KUSD {
                                k0 += amount;
                            }
                        }
                    }
                }
                let den = Uint512::from(price) * Uint512::from(pb + ps);
                let target_num = (Uint512::from(u0) * Uint512::from(price) + Uint512::from(k0) * Uint512::from(E18)) * Uint512::from(ps);
                let lhs = Uint512::from(held_usei) * den;
                let diff = if lhs > target_num { lhs - target_num } else { target_num - lhs };
                // one received-coin unit of rounding per swap the dispatcher makes (two for the usual single swap)
                let n_swaps = tr.execs.iter().filter(|x| x.caller == DISPATCHER && x.callee == SWAP).count().max(1) as u128;
                let tol = 4 + (1 + n_swaps) * mul_div_ceil(E18, 1, price).max(1);
                if diff <= Uint512::from(tol) * den {
                    split_ok = true;
                } else if split_msg.is_empty() {
                    split_msg = "x".into();
                }
                if false {
                    out.violation(
                        P,
                        "split_by_booked_stake",
                        format!("rewards ({} usei, {} kusd) with booked pools (bSei {}, stSei {}) at price {}: the stSei side received {} usei, more than {} away from its pro-rata share", u0, k0, pb, ps, c.w_pre.price, held_usei, tol),
                    );
                }
                if pb > 0 && ps > 0 && u0 + k0 > 1000 {
                    out.count("c19.updates_split_checked_both_pools");
                }
            } else {
                split_ok = true;
            }
            }
            if !split_ok {
                out.violation(
                    P,
                    "split_by_booked_stake",
                    format!("the stSei side received {} usei: not the pro-rata share of the rewards by the stored pools ({}, {}) nor by the pools with pending slashing recognised ({}, {}), price {}", held_usei, pre.raw_pool_b, pre.raw_pool_s, pre.pool_b, pre.pool_s, c.w_pre.price),
                );
            }
        }
        // 6. bSei holders' claimable total grows by what was delivered (plus the not-yet-indexed backlog), within dust
        let delivered = post.reward_bank - pre.reward_bank;
        if delivered != to_reward {
            out.violation(P, "right_parties", format!("reward contract balance grew by {} but {} was sent by the dispatcher", delivered, to_reward));
        }
        if pre.reward_total_balance > 0 {
            let backlog = pre.reward_bank - pre.prev_reward_balance;
            let x = delivered + backlog;
            let growth = accrued_atomics(post) - accrued_atomics(pre);
            let hi = Uint256::from(x) * Uint256::from(E18);
            // one truncation of the index increment: at most total_balance * 1e-18 coin, i.e. total_balance atomics
            let lo_slack = Uint256::from(pre.reward_total_balance);
            // lower bound: what this transaction delivered (the backlog - donations and earlier deliveries not yet
            // indexed - may be distributed now or later); upper bound: delivery plus backlog
            let lo = Uint256::from(delivered) * Uint256::from(E18);
            // (one base unit above: a contract may carry the sub-unit remainder of an earlier update's division)
            if growth > hi + Uint256::from(E18) || growth + lo_slack < lo {
                out.violation(P, "holders_receive_delivery", format!("delivered {} (+ backlog {}) but holders' accrued total grew by {} e-18 (expected {} e-18 minus at most {} e-18)", delivered, backlog, growth, hi, lo_slack));
            }
            if x > 0 {
                out.count("c19.updates_delivering_to_holders");
            }
        } else if delivered > 0 {
            out.count("c19.updates_delivering_while_no_bsei_holder");
        }
        // 7. hub liquid balance and unbonders' claims untouched
        if pre.hub_bank != post.hub_bank {
            out.violation(P, "hub_balance_untouched", format!("hub balance {} -> {}", pre.hub_bank, post.hub_bank));
        }
        // unbonders' claims: the requests, and every batch that was released already (whether the update also settles
        // a batch that has matured meanwhile is free - C08 judges the time lock of any release)
        let released_changed = pre.history.iter().filter(|h| h.released).any(|h| post.hist(h.batch_id) != Some(h));
        let unreleased_core_changed = pre.history.iter().filter(|h| !h.released).any(|h| match post.hist(h.batch_id) {
            Some(p) => p.time != h.time || p.bsei_amount != h.bsei_amount || p.stsei_amount != h.stsei_amount,
            None => true,
        });
        let settled_now = pre.history.iter().any(|h| !h.released && post.hist(h.batch_id).map(|p| p.released).unwrap_or(false));
        if settled_now {
            out.count("c19.updates_settling_matured_batches");
        }
        if pre.requests != post.requests || released_changed || unreleased_core_changed || (!settled_now && total_released_claims(pre) != total_released_claims(post)) {
            out.violation(P, "claims_untouched", "unbond requests / history changed during UpdateGlobalIndex".into());
        }
        // 8. value conservation at the oracle price (in kusd): withdrawn + prior holdings = keeper + reward + rebond, within rounding
        let price = c.w_pre.price.atomics().u128();
        let mut in_usei = pre.bal(DISPATCHER, USEI);
        let mut in_kusd = pre.bal(DISPATCHER, KUSD);
        let mut in_other = 0u128;
        for e in tr.evs() {
            if let Ev::RewardPaid { to, denom, amount, .. } = e {
                if to == DISPATCHER {
                    if denom == USEI {
                        in_usei += amount;
                    } else if denom == KUSD {
                        in_kusd += amount;
                    } else if denom == UATOM && c.cfg.extra_denom {
                        in_other += mul_rate(*amount, c.w_pre.other_prices[UATOM].atomics().u128());
                    }
                }
            }
        }
        if c.cfg.extra_denom {
            in_other += mul_rate(pre.bal(DISPATCHER, UATOM), c.w_pre.other_prices[UATOM].atomics().u128());
        }
        let value_in = Uint256::from(in_usei) * Uint256::from(price) + (Uint256::from(in_kusd) + Uint256::from(in_other)) * Uint256::from(E18);
        let value_out = Uint256::from(held_usei) * Uint256::from(price) + Uint256::from(held_kusd) * Uint256::from(E18);
        // Every swap floors its output once (less than one unit of the coin received) and the dispatcher's inverse
        // price is truncated at 18 digits (less than one usei on amounts up to 1e18): at most one kusd for the
        // extra-denomination conversion plus two units of either coin for the balancing swap. Value is only ever lost.
        let n_swaps = tr.execs.iter().filter(|x| x.caller == DISPATCHER && x.callee == SWAP).count().max(1) as u128;
        let tol = (Uint256::from(price.max(E18)) + Uint256::from(E18)) * Uint256::from(2 + n_swaps);
        let diff = if value_in > value_out { value_in - value_out } else { value_out - value_in };
        if diff > tol {
            out.violation(
                P,
                "value_conserved",
                format!("value in ({} usei, {} kusd, {} other) vs out ({} usei, {} kusd) at price {}: differ by {} e-18 kusd (tolerance {})", in_usei, in_kusd, in_other, held_usei, held_kusd, c.w_pre.price, diff, tol),
            );
        }
        out.distinct(&(
            "ugi",
            pre.pool_b == 0,
            pre.pool_s == 0,
            decade(in_usei),
            decade(in_kusd),
            in_other > 0,
            rebond > 0,
            pre.reward_total_balance > 0,
            pre.history.iter().any(|h| !h.released),
        ));
    }
}

impl Monitor for C19 {
    fn on_step(&mut self, c: &Ctx, _rng: &mut Rng, out: &mut Out) {
        // index updates triggered by the registry while it removes a validator are judged too
        if let Op::RemoveValidator { sender, .. } = c.op {
            if sender == OWNER && c.res.ok() && !c.pre.params.paused.unwrap_or(false) {
                out.count("c19.validator_removals_seen");
                let has_update = c.res.trace().map(|t| t.execs.iter().any(|e| e.callee == HUB && e.msg.starts_with("{\"update_global_index\""))).unwrap_or(false);
                if has_update {
                    out.count("c19.updates_inside_validator_removal");
                    self.judge(c, c.res, c.post, true, out);
                }
            }
            return;
        }
        let sender = match c.op {
            Op::UpdateGlobalIndex { sender } => sender,
            _ => return,
        };
        if sender != UPDATER {
            return;
        }
        let pre = c.pre;
        if pre.params.paused.unwrap_or(false) {
            return;
        }
        out.count("c19.updates");
        if c.res.ok() {
            self.judge(c, c.res, c.post, false, out);
            return;
        }
        let err = c.res.tx.as_ref().unwrap().err.clone();
        let bonded = pre.total_delegated > 0 && pre.pool_b + pre.pool_s > 0;
        if !bonded {
            out.count("c19.updates_failed_without_stake");
            return;
        }
        // failure while stake is bonded: either the recorded zero-coin finding, or a violation
        let mut w = c.w_pre.clone();
        w.bank_lenient = true;
        let r2 = c.op.apply(&mut w);
        let kr = c.cfg.keeper_rate.atomics().u128();
        match r2.trace().and_then(|t| classify_zero_coin(&err, t, kr)) {
            Some(sig) if r2.ok() => {
                let csig = sig.replace("C17:", "C19:");
                out.known(P, "executes_whenever_bonded", &csig, format!("UpdateGlobalIndex failed: {}", err));
                out.count("c19.updates_failed_by_known_zero_coin_transfer");
                let post2 = snap::take(&w);
                self.judge(c, &r2, &post2, false, out);
            }
            _ => {
                out.violation(P, "executes_whenever_bonded", format!("UpdateGlobalIndex failed while stake is bonded (delegated {}, pools {}+{}): {}", pre.total_delegated, pre.pool_b, pre.pool_s, err));
            }
        }
    }
}
