//! C16 — reward-contract balances mirror bSei token balances at all times.

use crate::mon::*;
use crate::ops::*;
use crate::rng::Rng;
use std::collections::BTreeSet;

const P: &str = "C16";

#[derive(Default)]
pub struct C16 {}

impl Monitor for C16 {
    fn on_step(&mut self, c: &Ctx, _rng: &mut Rng, out: &mut Out) {
        let s = c.post;
        let mut addrs: BTreeSet<&String> = s.bsei.balances.keys().collect();
        addrs.extend(s.holders.keys());
        for a in addrs {
            let t = s.bsei.balances.get(a).cloned().unwrap_or(0);
            let h = s.holders.get(a).map(|x| x.balance).unwrap_or(0);
            if t != h {
                out.violation(P, "balance_mirror", format!("after {}: {} holds {} bSei but the reward contract records {}", c.op.kind(), a, t, h));
                return;
            }
        }
        if s.bsei.supply != s.reward_total_balance {
            out.violation(P, "total_mirror", format!("after {}: bSei supply {} but reward contract total {}", c.op.kind(), s.bsei.supply, s.reward_total_balance));
        }
        out.count("c16.mirror_checks");
        let touches_bsei = match c.op {
            Op::Bond { .. } => true,
            Op::Unbond { tok, .. } | Op::Transfer { tok, .. } | Op::SendDummy { tok, .. } | Op::TransferFrom { tok, .. } | Op::BurnFrom { tok, .. } | Op::Burn { tok, .. } | Op::Mint { tok, .. } => *tok == Tok::B,
            Op::Convert { .. } => true,
            _ => false,
        };
        if matches!(c.op, Op::Transfer { tok: Tok::B, from, to, .. } if from == to) {
            out.count("c16.self_transfer_attempts");
        }
        if touches_bsei && c.res.ok() {
            let via_allowance = matches!(c.op, Op::Unbond { owner: Some(_), .. } | Op::Convert { owner: Some(_), .. } | Op::TransferFrom { .. } | Op::BurnFrom { .. });
            out.count(&format!("c16.bsei_op.{}{}", c.op.kind(), if via_allowance { ".via_allowance" } else { "" }));
            let self_transfer = matches!(c.op, Op::Transfer { from, to, .. } if from == to);
            if self_transfer {
                out.count("c16.self_transfers");
            }
            let holders_n = s.bsei.balances.values().filter(|b| **b > 0).count();
            out.distinct(&(c.op.kind(), via_allowance, self_transfer, holders_n.min(12), decade(s.bsei.supply)));
        }
    }
}
