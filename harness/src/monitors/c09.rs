//! C09 — holders can always exit; exits do not depend on the reward plumbing.

use crate::chain::{Fault, World, ALL_FAULTS};
use crate::mon::*;
use crate::monitors::c01::released_value;
use crate::ops::*;
use crate::rng::Rng;
use crate::setup::*;
use crate::snap::{self, Snap};

const P: &str = "C09";

pub struct C09 {
    since_dry: u64,
    pub dry_every: u64,
    pub pair_every: u64,
    since_pair: u64,
}

impl C09 {
    pub fn new() -> C09 {
        C09 { since_dry: 0, dry_every: if thorough() { 5 } else { 10 }, pair_every: 1, since_pair: 0 }
    }
}

fn is_exit_kind(op: &Op) -> bool {
    matches!(
        op,
        Op::Bond { .. }
            | Op::BondStSei { .. }
            | Op::Unbond { .. }
            | Op::Convert { .. }
            | Op::Withdraw { .. }
            | Op::Transfer { .. }
            | Op::SendDummy { .. }
            | Op::IncreaseAllowance { .. }
            | Op::DecreaseAllowance { .. }
            | Op::TransferFrom { .. }
            | Op::BurnFrom { .. }
            | Op::ClaimRewards { .. }
            | Op::CheckSlashing { .. }
    )
}

impl C09 {
    /// bounded-progress exit check from one reachable state, on clones
    fn exit_dry_run(&self, w: &World, s: &Snap, rng: &mut Rng, out: &mut Out) {
        if s.params.paused.unwrap_or(false) {
            return;
        }
        if s.total_delegated == 0 {
            return;
        }
        out.count("c09.exit_states_sampled");
        let dust_state = s.bsei.supply + s.stsei.supply <= 3 || s.pool_b + s.pool_s <= 2;
        if dust_state {
            out.count("c09.exit_states_dust");
        }
        for tok in [Tok::B, Tok::St] {
            let (pool, claims) = if tok == Tok::B { (s.pool_b, s.claims_b()) } else { (s.pool_s, s.claims_s()) };
            if pool == 0 && claims > 0 {
                // token's pool wiped out by slashing: excluded by the property ("validator set slashed to zero")
                out.count("c09.skipped_pool_slashed_to_zero");
                continue;
            }
            let holders: Vec<(String, u128)> = s.tok(tok).balances.iter().filter(|(a, b)| **b > 0 && a.as_str() != HUB).map(|(a, b)| (a.clone(), *b)).collect();
            for (holder, bal) in holders {
                let mut amounts = vec![bal, 1];
                if bal > 2 {
                    amounts.push(rng.range128(2, bal - 1));
                }
                for amount in amounts {
                    let mut c = w.clone();
                    // (i) unbond succeeds
                    let r = Op::Unbond { user: holder.clone(), tok, amount, owner: None }.apply(&mut c);
                    out.count("c09.exit_unbond_attempts");
                    if !r.ok() {
                        out.violation(
                            P,
                            "unbond_always_possible",
                            format!("{} cannot unbond {} of its {} {:?} at time {}: {} [pools ({},{}), supplies ({},{}), requested ({},{}), delegated {}]", holder, amount, bal, tok, s.time, r.tx.unwrap().err, s.pool_b, s.pool_s, s.bsei.supply, s.stsei.supply, s.req_b, s.req_s, s.total_delegated),
                        );
                        return;
                    }
                    let s1 = snap::take(&c);
                    // (ii) after the epoch, the next unbond undelegates all pending requests
                    let batch = if s1.batch_id != s.batch_id {
                        // the first unbond already closed the batch
                        s.batch_id
                    } else {
                        c.advance(s1.params.epoch_period + 1);
                        // somebody (anybody holding a token) unbonds 1 unit; use the same holder if it has balance left,
                        // otherwise any other holder of either token
                        let s2 = snap::take(&c);
                        let trigger = [Tok::B, Tok::St]
                            .iter()
                            .flat_map(|t| s2.tok(*t).balances.iter().filter(|(a, b)| **b > 0 && a.as_str() != HUB).map(move |(a, _)| (a.clone(), *t)))
                            .next();
                        match trigger {
                            None => {
                                // nobody holds anything any more: the requests wait for the next unbonder; property (ii)
                                // speaks about "the first unbond that arrives", so there is nothing to check here
                                out.count("c09.exit_no_trigger_available");
                                continue;
                            }
                            Some((th, tt)) => {
                                let r2 = Op::Unbond { user: th.clone(), tok: tt, amount: 1, owner: None }.apply(&mut c);
                                if !r2.ok() {
                                    out.violation(P, "undelegated_after_epoch", format!("after the epoch period, the unbond of 1 {:?} by {} that should close batch {} failed: {}", tt, th, s1.batch_id, r2.tx.unwrap().err));
                                    return;
                                }
                                let s3 = snap::take(&c);
                                if s3.batch_id != s1.batch_id + 1 || s3.hist(s1.batch_id).is_none() {
                                    out.violation(P, "undelegated_after_epoch", format!("the first unbond after the epoch period did not undelegate batch {}", s1.batch_id));
                                    return;
                                }
                                s1.batch_id
                            }
                        }
                    };
                    // (iii) after the unbonding period the holder can withdraw whenever the claim is worth >= 1
                    let unb = s1.params.unbonding_period;
                    c.advance(unb);
                    let before = c.bal(&holder, USEI);
                    let r3 = Op::Withdraw { user: holder.clone() }.apply(&mut c);
                    out.count("c09.exit_withdraw_attempts");
                    if !r3.ok() {
                        // value of the holder's matured claims; if nobody could release the batches, let another claimant try first
                        let mut c2 = c.clone();
                        let s4 = snap::take(&c2);
                        let others: Vec<String> = s4.requests.keys().filter(|u| **u != holder).cloned().collect();
                        for o in others {
                            let _ = Op::Withdraw { user: o }.apply(&mut c2);
                        }
                        let s5 = snap::take(&c2);
                        let reqs = s5.requests.get(&holder).cloned().unwrap_or_default();
                        let (v, ids) = released_value(&s5, &reqs);
                        let unreleased = reqs.iter().any(|(b, _, _)| s5.hist(*b).map(|h| !h.released && h.time + unb <= s5.time).unwrap_or(false));
                        if v >= 1 {
                            out.violation(
                                P,
                                "withdraw_after_unbonding",
                                format!("{} unbonded {} {:?} (batch {}), waited epoch+unbonding, claims worth {} (batches {:?}) but WithdrawUnbonded failed: {}", holder, amount, tok, batch, v, ids, r3.tx.unwrap().err),
                            );
                            return;
                        } else if unreleased {
                            out.count("c09.exit_withdraw_undecidable");
                        } else {
                            out.count("c09.exit_withdraw_zero_value");
                        }
                    } else {
                        let got = c.bal(&holder, USEI) - before;
                        out.count("c09.exit_withdraw_ok");
                        out.distinct(&("exit", tok, decade(amount), decade(got), dust_state, rate_class(if tok == Tok::B { s.rb } else { s.rs })));
                    }
                }
            }
        }
    }

    /// Staggered exit: the same holder leaves in two instalments that land in two different batches and
    /// withdraws once when only the first batch has matured and once after the second has: every recorded claim
    /// must be paid (a claim is "worth" what UnbondRequests reported for it right after the unbond).
    fn staggered_exit(&self, w: &World, s: &Snap, rng: &mut Rng, out: &mut Out) {
        let (epoch, unb) = (s.params.epoch_period, s.params.unbonding_period);
        if s.params.paused.unwrap_or(false) || s.total_delegated == 0 {
            return;
        }
        if unb < epoch + 1 || unb > 1_000_000_000 {
            out.count("c09.staggered_not_applicable");
            return;
        }
        let mut cands: Vec<(String, Tok, u128)> = vec![];
        for tok in [Tok::B, Tok::St] {
            let (pool, claims) = if tok == Tok::B { (s.pool_b, s.claims_b()) } else { (s.pool_s, s.claims_s()) };
            if pool == 0 && claims > 0 {
                continue;
            }
            for (a, b) in s.tok(tok).balances.iter() {
                if *b >= 3 && a.as_str() != HUB && USERS.contains(&a.as_str()) {
                    cands.push((a.clone(), tok, *b));
                }
            }
        }
        if cands.is_empty() {
            return;
        }
        let (holder, tok, bal) = rng.pick(&cands).clone();
        let mut c = w.clone();
        let a1 = rng.range128(1, bal - 2);
        let a3 = rng.range128(1, bal - 1 - a1);
        let claim_of = |s: &Snap, batch: u64| -> (u128, u128) { s.requests.get(&holder).and_then(|r| r.iter().find(|x| x.0 == batch).map(|x| (x.1, x.2))).unwrap_or((0, 0)) };
        // first instalment
        let k = s.batch_id;
        if !(Op::Unbond { user: holder.clone(), tok, amount: a1, owner: None }).apply(&mut c).ok() {
            return; // judged by the plain exit dry-run
        }
        let mut s1 = snap::take(&c);
        if s1.batch_id == k {
            c.advance(epoch + 1);
            if !(Op::Unbond { user: holder.clone(), tok, amount: 1, owner: None }).apply(&mut c).ok() {
                return;
            }
            s1 = snap::take(&c);
            if s1.batch_id == k {
                return;
            }
        }
        let t1 = match s1.hist(k) {
            Some(h) => h.time,
            None => return,
        };
        let claim_k = claim_of(&s1, k);
        // second instalment, one epoch later, lands in batch k+1 and closes it
        c.advance(epoch + 1);
        if !(Op::Unbond { user: holder.clone(), tok, amount: a3, owner: None }).apply(&mut c).ok() {
            return;
        }
        let s2 = snap::take(&c);
        if s2.batch_id != k + 2 {
            return;
        }
        let claim_k1 = claim_of(&s2, k + 1);
        // withdraw exactly when batch k matures (batch k+1 is still unbonding)
        let now = c.time;
        if t1 + unb < now {
            return;
        }
        c.advance(t1 + unb - now);
        // a withdrawal may pay a holder's matured claims one batch per call (how much one call pays is C01's subject):
        // keep withdrawing while calls succeed and the claim in question is still recorded - bounded progress
        fn keep_withdrawing(c: &mut crate::chain::World, holder: &str, batch: u64, first: &crate::ops::StepResult) {
            if !first.ok() {
                return;
            }
            for _ in 0..8 {
                let s = crate::snap::take(c);
                let left = s.requests.get(holder).map(|v| v.iter().any(|x| x.0 == batch)).unwrap_or(false);
                if !left || !(Op::Withdraw { user: holder.to_string() }).apply(c).ok() {
                    break;
                }
            }
        }
        let b0 = c.bal(&holder, USEI);
        let r1 = Op::Withdraw { user: holder.clone() }.apply(&mut c);
        keep_withdrawing(&mut c, &holder, k, &r1);
        let s3 = snap::take(&c);
        let paid1 = c.bal(&holder, USEI) - b0;
        out.count("c09.staggered_exits");
        let value = |s: &Snap, batch: u64, cl: (u128, u128)| -> Option<u128> { s.hist(batch).filter(|h| h.released).map(|h| mul_rate(cl.0, h.bsei_withdraw) + mul_rate(cl.1, h.stsei_withdraw)) };
        if r1.ok() {
            if let Some(v) = value(&s3, k, claim_k) {
                if paid1 < v {
                    out.violation(P, "withdraw_after_unbonding", format!("staggered exit: {}'s claim {:?} in batch {} is worth {} but the first withdrawal paid {}", holder, claim_k, k, v, paid1));
                    return;
                }
            }
        }
        // after batch k+1 has matured too, the second claim must be payable
        c.advance(epoch + 1);
        let b1 = c.bal(&holder, USEI);
        let r2 = Op::Withdraw { user: holder.clone() }.apply(&mut c);
        keep_withdrawing(&mut c, &holder, k + 1, &r2);
        let mut s4 = snap::take(&c);
        let paid2 = c.bal(&holder, USEI) - b1;
        if !r2.ok() {
            // let another claimant trigger the release so that the value of the claim becomes observable
            let others: Vec<String> = s4.requests.keys().filter(|u| **u != holder).cloned().collect();
            for o in others {
                let _ = Op::Withdraw { user: o }.apply(&mut c);
            }
            s4 = snap::take(&c);
        }
        match value(&s4, k + 1, claim_k1) {
            Some(v) if v >= 1 => {
                let still_recorded = claim_of(&s4, k + 1) != (0, 0);
                if !r2.ok() || paid2 < v {
                    out.violation(
                        P,
                        "withdraw_after_unbonding",
                        format!(
                            "staggered exit: {} unbonded {} {:?} into batch {} (claim {:?}, worth {} after release) but the withdrawal after its unbonding period {} (paid {}; first withdrawal at the maturity of batch {} paid {}; claim still recorded: {})",
                            holder, a3, tok, k + 1, claim_k1, v, if r2.ok() { "succeeded".to_string() } else { format!("failed: {}", r2.tx.as_ref().unwrap().err) }, paid2, k, paid1, still_recorded
                        ),
                    );
                    return;
                }
                out.count("c09.staggered_second_claim_paid");
            }
            Some(_) => out.count("c09.staggered_second_claim_worthless"),
            None => out.count("c09.staggered_undecidable"),
        }
    }

    fn paired_faults(&self, c: &Ctx, out: &mut Out) {
        // re-run the same operation from the same pre-state under every failure mode of the external contracts
        let mut base = c.w_pre.clone();
        base.swap_fault = Fault::Ok;
        base.oracle_fault = Fault::Ok;
        let mut w0 = base.clone();
        let r0 = c.op.apply(&mut w0);
        let d0_raw = w0.digest();
        let mut d0_sem: Option<u64> = None;
        for f in ALL_FAULTS.iter().skip(1) {
            for (sf, of) in [(*f, *f), (*f, Fault::Ok), (Fault::Ok, *f)] {
                let mut w1 = base.clone();
                w1.swap_fault = sf;
                w1.oracle_fault = of;
                let r1 = c.op.apply(&mut w1);
                out.count("c09.paired_fault_runs");
                // "the same results": accepted or rejected alike, and the same world afterwards (balances, storage,
                // staking); response attributes and which queries were made along the way are not results
                // fast path: identical raw worlds; otherwise compare what queries and the chain show
                let same = r0.ok() == r1.ok() && (d0_raw == w1.digest() || *d0_sem.get_or_insert_with(|| crate::snap::sem_digest(&w0)) == crate::snap::sem_digest(&w1));
                if !same {
                    let (a, b) = (r0.tx.as_ref().unwrap(), r1.tx.as_ref().unwrap());
                    out.violation(
                        P,
                        "independent_of_reward_plumbing",
                        format!(
                            "{} behaves differently with swap={:?} oracle={:?}: ok {} vs {}, err '{}' vs '{}', state diff {:?}",
                            c.op.kind(), sf, of, a.ok, b.ok, a.err, b.err, w0.diff(&w1).into_iter().take(3).collect::<Vec<_>>()
                        ),
                    );
                    return;
                }
            }
        }
        out.distinct(&("paired", c.op.kind(), r0.ok()));
    }
}

impl Monitor for C09 {
    fn on_step(&mut self, c: &Ctx, rng: &mut Rng, out: &mut Out) {
        if is_exit_kind(c.op) {
            // (a) call-trace: the reward plumbing's external contracts are never touched
            if let Some(tr) = c.res.trace() {
                out.count("c09.traces_checked");
                // counted, not judged: the property is about outcomes (decided by the paired runs below), not about
                // the call graph; an exit that touches the plumbing is re-run under every fault mode at once
                let touches = tr.execs.iter().any(|e| e.callee == SWAP || e.callee == ORACLE) || tr.queries.iter().any(|(_, to)| to == SWAP || to == ORACLE);
                if touches {
                    out.count("c09.exit_txs_touching_swap_or_oracle");
                    self.since_pair = self.pair_every;
                }
            }
            self.since_pair += 1;
            if self.since_pair >= self.pair_every {
                self.since_pair = 0;
                self.paired_faults(c, out);
            }
        }
        self.since_dry += 1;
        if self.since_dry >= self.dry_every {
            self.since_dry = 0;
            self.exit_dry_run(c.w_post, c.post, rng, out);
            self.staggered_exit(c.w_post, c.post, rng, out);
        }
    }

    fn on_end(&mut self, w: &World, s: &Snap, _cfg: &Cfg, rng: &mut Rng, out: &mut Out) {
        self.exit_dry_run(w, s, rng, out);
        self.staggered_exit(w, s, rng, out);
    }
}
