//! C15 — reward accrual is proportional to holdings and independent of others' actions
//! (single-run reference ledger; the relational twins live in the reward-world driver).

use crate::mon::*;
use crate::monitors::c14::reward_updates_in;
use crate::ops::*;
use crate::rng::Rng;
use crate::snap::Snap;
use cosmwasm_std::Uint512;
use std::collections::BTreeMap;

const P: &str = "C15";

fn e18() -> Uint512 {
    Uint512::from(E18)
}

#[derive(Default)]
pub struct C15 {
    /// exact expected accrual per holder, in units of 1e-36 reward coin (each term floored at that precision)
    expected: BTreeMap<String, Uint512>,
    /// truncation allowance per holder, same unit
    eps: BTreeMap<String, Uint512>,
    pub updates: u64,
}

pub fn accrued_of(s: &Snap, a: &str) -> Uint512 {
    match s.holders.get(a) {
        None => Uint512::zero(),
        Some(h) => Uint512::from(s.global_index.saturating_sub(h.index)) * Uint512::from(h.balance) + Uint512::from(h.pending),
    }
}

impl C15 {
    fn compare(&self, s: &Snap, out: &mut Out, when: &str) {
        for (a, _) in s.holders.iter() {
            let acc = accrued_of(s, a) * e18();
            let exp = self.expected.get(a).cloned().unwrap_or_default();
            let eps = self.eps.get(a).cloned().unwrap_or_default();
            if acc > exp {
                out.violation(P, "never_more_than_share", format!("{}: {} has accrued {} e-36 but its exact pro-rata share is {} e-36", when, a, acc, exp));
                return;
            }
            if exp - acc > eps {
                out.violation(P, "share_within_rounding", format!("{}: {} has accrued {} e-36, exact share {} e-36, shortfall {} above the truncation allowance {}", when, a, acc, exp, exp - acc, eps));
                return;
            }
        }
        out.count("c15.ledger_comparisons");
    }
}

impl Monitor for C15 {
    fn on_step(&mut self, c: &Ctx, _rng: &mut Rng, out: &mut Out) {
        let (pre, post) = (c.pre, c.post);
        if c.res.ok() {
            if reward_updates_in(c) > 0 && pre.reward_total_balance > 0 {
                // holders' balances do not change inside an index update; the delivered amount is what the
                // contract newly recorded
                let claimed = post.prev_reward_balance.saturating_sub(pre.prev_reward_balance);
                self.updates += 1;
                let total = Uint512::from(pre.reward_total_balance);
                let mut n_holders = 0;
                for (a, h) in pre.holders.iter() {
                    if h.balance == 0 {
                        continue;
                    }
                    n_holders += 1;
                    let term = Uint512::from(h.balance) * Uint512::from(claimed) * e18() * e18() / total;
                    *self.expected.entry(a.clone()).or_default() += term;
                    // truncated index increment: less than balance * 1e-18 coin
                    *self.eps.entry(a.clone()).or_default() += Uint512::from(h.balance) * e18();
                }
                out.count("c15.updates_with_holders");
                if n_holders >= 3 {
                    out.count("c15.updates_with_3plus_holders");
                }
                out.distinct(&("update", n_holders.min(12), decade(claimed), decade(pre.reward_total_balance)));
            }
            if let Op::ClaimRewards { user, .. } = c.op {
                let paid = pre.prev_reward_balance - post.prev_reward_balance;
                let e = self.expected.entry(user.clone()).or_default();
                let sub = Uint512::from(paid) * e18() * e18();
                if *e >= sub {
                    *e -= sub;
                } else {
                    out.violation(P, "never_more_than_share", format!("{} claimed {} which exceeds its exact share {} e-36", user, paid, e));
                }
                out.count("c15.claims");
            }
            // every balance change settles once (one more sub-1e-18 truncation)
            for (a, h1) in post.holders.iter() {
                let b0 = pre.holders.get(a).map(|h| h.balance).unwrap_or(0);
                if b0 != h1.balance {
                    *self.eps.entry(a.clone()).or_default() += e18();
                    // accrued rewards stay with the holder who earned them
                    let a0 = accrued_of(pre, a);
                    let a1 = accrued_of(post, a);
                    let moved = reward_updates_in(c) == 0;
                    if moved && a0 != a1 {
                        out.violation(P, "past_rewards_stay", format!("{}: balance {} -> {} changed {}'s accrued rewards {} -> {} e-18", c.op.kind(), b0, h1.balance, a, a0, a1));
                    }
                    out.count("c15.balance_changes_checked");
                }
            }
        }
        self.compare(post, out, &format!("after step {} ({})", c.step, c.op.kind()));
    }
}
