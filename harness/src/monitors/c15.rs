//! C15 — reward accrual is proportional to holdings and independent of others' actions
//! (single-run reference ledger; the relational twins live in the reward-world driver).

use crate::chain::World;
use crate::mon::*;
use crate::monitors::c14::reward_updates_in;
use crate::ops::*;
use crate::rng::Rng;
use crate::setup::*;
use crate::snap::{self, Snap};
use cosmwasm_std::Uint512;
use std::collections::BTreeMap;

const P: &str = "C15";

fn e18() -> Uint512 {
    Uint512::from(E18)
}

#[derive(Default)]
pub struct C15 {
    /// exact expected accrual per holder, in units of 1e-36 reward coin (each term floored at that precision)
    expected: BTreeMap<String, Uint512>,
    /// truncation allowance per holder, same unit
    eps: BTreeMap<String, Uint512>,
    pub updates: u64,
    /// initial world and the recorded operations, for the relational twins run at the end of the history
    w0: Option<World>,
    ops: Vec<(Op, bool)>,
}

const OBSERVED: &str = "alice";
const OBSERVED_2: &str = "alicetwo";

fn involves(op: &Op, who: &str) -> bool {
    match op {
        Op::Mint { to, sender, .. } => to == who || sender == who,
        Op::Transfer { from, to, .. } => from == who || to == who,
        Op::SendDummy { from, .. } => from == who,
        Op::IncreaseAllowance { owner, spender, .. } | Op::DecreaseAllowance { owner, spender, .. } => owner == who || spender == who,
        Op::TransferFrom { spender, owner, to, .. } => spender == who || owner == who || to == who,
        Op::BurnFrom { spender, owner, .. } => spender == who || owner == who,
        Op::Burn { user, .. } => user == who,
        Op::ClaimRewards { user, recipient } => user == who || recipient.as_deref() == Some(who),
        _ => false,
    }
}

fn is_update(op: &Op) -> bool {
    matches!(op, Op::Raw { contract, msg, .. } if contract == REWARD && msg.starts_with("{\"update_global_index\""))
}

fn is_fixed(op: &Op) -> bool {
    // operations that stay where they are in every twin: updates, deliveries, clock moves, anything of the observed holder
    is_update(op) || matches!(op, Op::Donate { .. } | Op::Advance { .. }) || involves(op, OBSERVED)
}

fn changes_balances(op: &Op) -> bool {
    matches!(op, Op::Mint { .. } | Op::Transfer { .. } | Op::SendDummy { .. } | Op::TransferFrom { .. } | Op::BurnFrom { .. } | Op::Burn { .. })
}

/// what the observed holder has earned so far: accrued (1e-18 units) + everything already paid out to anybody on its claims
fn earned(w: &World, who: &[&str], claimed: u128) -> Uint512 {
    let s = snap::take(w);
    let mut t = Uint512::from(claimed) * e18();
    for a in who {
        t += accrued_of(&s, a);
    }
    t
}

fn replay(w0: &World, ops: &[Op], who: &[&str]) -> (Uint512, Vec<bool>, u128) {
    let mut w = w0.clone();
    let mut oks = vec![];
    let mut claimed = 0u128;
    for op in ops {
        let before = w.bal(REWARD, KUSD);
        let r = op.apply(&mut w);
        if let Op::ClaimRewards { user, .. } = op {
            if r.ok() && who.contains(&user.as_str()) {
                claimed += before - w.bal(REWARD, KUSD);
            }
        }
        oks.push(r.ok());
    }
    let supply = snap::take(&w).bsei.supply;
    (earned(&w, who, claimed), oks, supply)
}

impl C15 {
    fn twins(&self, rng: &mut Rng, out: &mut Out) {
        let w0 = match &self.w0 {
            Some(w) => w,
            None => return,
        };
        let base_ops: Vec<Op> = self.ops.iter().map(|x| x.0.clone()).collect();
        if !base_ops.iter().any(|o| involves(o, OBSERVED)) || !base_ops.iter().any(is_update) {
            return;
        }
        let (base_earned, base_oks, _) = replay(w0, &base_ops, &[OBSERVED]);
        // (a) independent operations of other holders in another order: adjacent operations with disjoint sets of
        // participants are swapped at random inside each segment between two index updates
        {
            let parts = |o: &Op| -> Vec<String> {
                match o {
                    Op::Mint { to, sender, .. } => vec![to.clone(), sender.clone()],
                    Op::Transfer { from, to, .. } => vec![from.clone(), to.clone()],
                    Op::SendDummy { from, .. } => vec![from.clone(), DUMMY.to_string()],
                    Op::IncreaseAllowance { owner, spender, .. } | Op::DecreaseAllowance { owner, spender, .. } => vec![owner.clone(), spender.clone()],
                    Op::TransferFrom { spender, owner, to, .. } => vec![spender.clone(), owner.clone(), to.clone()],
                    Op::BurnFrom { spender, owner, .. } => vec![spender.clone(), owner.clone()],
                    Op::Burn { user, .. } => vec![user.clone()],
                    Op::ClaimRewards { user, recipient } => vec![user.clone(), recipient.clone().unwrap_or_default()],
                    _ => vec![],
                }
            };
            let mut t = base_ops.clone();
            let mut swaps = 0;
            for _round in 0..3 {
                let mut i = 0;
                while i + 1 < t.len() {
                    if !is_fixed(&t[i]) && !is_fixed(&t[i + 1]) && rng.chance(1, 2) {
                        let (pa, pb) = (parts(&t[i]), parts(&t[i + 1]));
                        if !pa.is_empty() && !pb.is_empty() && !pa.iter().any(|x| pb.contains(x)) {
                            t.swap(i, i + 1);
                            swaps += 1;
                            i += 1;
                        }
                    }
                    i += 1;
                }
            }
            if swaps > 0 {
                let (e, oks, _) = replay(w0, &t, &[OBSERVED]);
                let n_ok_base = base_oks.iter().filter(|x| **x).count();
                let n_ok = oks.iter().filter(|x| **x).count();
                if n_ok == n_ok_base {
                    out.count("c15.twins_reordered_compared");
                    if e != base_earned {
                        out.violation(P, "independent_of_others_order", format!("{} earned {} e-18 in the recorded history but {} e-18 when {} pairs of independent operations of other holders are swapped", OBSERVED, base_earned, e, swaps));
                        return;
                    }
                } else {
                    out.count("c15.twins_reordered_discarded");
                }
            }
        }
        // (b) other holders' operations that do not move balances removed
        {
            let t: Vec<Op> = base_ops.iter().filter(|o| is_fixed(o) || !matches!(o, Op::ClaimRewards { .. })).cloned().collect();
            if t.len() < base_ops.len() {
                let (e, _, _) = replay(w0, &t, &[OBSERVED]);
                out.count("c15.twins_others_claims_removed_compared");
                if e != base_earned {
                    out.violation(P, "independent_of_others_actions", format!("{} earned {} e-18 in the recorded history but {} e-18 when other holders' reward claims are removed", OBSERVED, base_earned, e));
                    return;
                }
            }
        }
        // (c) the observed position split over two accounts
        {
            // base': the recorded history without the observed holder's allowance business (not splittable)
            let keep = |o: &Op| -> bool {
                !(involves(o, OBSERVED) && matches!(o, Op::IncreaseAllowance { .. } | Op::DecreaseAllowance { .. } | Op::TransferFrom { .. } | Op::BurnFrom { .. }))
            };
            let b: Vec<Op> = base_ops.iter().filter(|o| keep(o)).cloned().collect();
            let (e1, _, supply1) = replay(w0, &b, &[OBSERVED]);
            // twin, executed step by step so that outflows can be drawn from the first account first
            let mut w = w0.clone();
            let mut claimed = 0u128;
            for op in b.iter() {
                let bal = |w: &World, a: &str| -> u128 {
                    w.q::<cw20::BalanceResponse, _>(BSEI, &cw20::Cw20QueryMsg::Balance { address: a.to_string() }).map(|x| x.balance.u128()).unwrap_or(0)
                };
                let mut todo: Vec<Op> = vec![];
                match op {
                    Op::Mint { tok, sender, to, amount } if to == OBSERVED => {
                        let h = amount / 2;
                        if h > 0 {
                            todo.push(Op::Mint { tok: *tok, sender: sender.clone(), to: OBSERVED.into(), amount: h });
                        }
                        todo.push(Op::Mint { tok: *tok, sender: sender.clone(), to: OBSERVED_2.into(), amount: amount - h });
                    }
                    Op::Transfer { tok, from, to, amount } if from == OBSERVED && to != OBSERVED => {
                        let (b1, b2) = (bal(&w, OBSERVED), bal(&w, OBSERVED_2));
                        if *amount <= b1 + b2 && *amount > 0 {
                            let p1 = (*amount).min(b1);
                            if p1 > 0 {
                                todo.push(Op::Transfer { tok: *tok, from: OBSERVED.into(), to: to.clone(), amount: p1 });
                            }
                            if amount - p1 > 0 {
                                todo.push(Op::Transfer { tok: *tok, from: OBSERVED_2.into(), to: to.clone(), amount: amount - p1 });
                            }
                        }
                    }
                    Op::Transfer { from, to, .. } if from == OBSERVED && to == OBSERVED => {}
                    Op::SendDummy { tok, from, amount } if from == OBSERVED => {
                        let (b1, b2) = (bal(&w, OBSERVED), bal(&w, OBSERVED_2));
                        if *amount <= b1 + b2 && *amount > 0 {
                            let p1 = (*amount).min(b1);
                            if p1 > 0 {
                                todo.push(Op::SendDummy { tok: *tok, from: OBSERVED.into(), amount: p1 });
                            }
                            if amount - p1 > 0 {
                                todo.push(Op::SendDummy { tok: *tok, from: OBSERVED_2.into(), amount: amount - p1 });
                            }
                        }
                    }
                    Op::ClaimRewards { user, recipient } if user == OBSERVED => {
                        let rcp = recipient.clone().or(Some(OBSERVED.to_string()));
                        todo.push(Op::ClaimRewards { user: OBSERVED.into(), recipient: rcp.clone() });
                        todo.push(Op::ClaimRewards { user: OBSERVED_2.into(), recipient: rcp });
                    }
                    other => todo.push(other.clone()),
                }
                for o in todo {
                    let before = w.bal(REWARD, KUSD);
                    let r = o.apply(&mut w);
                    if let Op::ClaimRewards { user, .. } = &o {
                        if r.ok() && (user == OBSERVED || user == OBSERVED_2) {
                            claimed += before - w.bal(REWARD, KUSD);
                        }
                    }
                }
            }
            let supply2 = snap::take(&w).bsei.supply;
            if supply1 == supply2 {
                let e2 = earned(&w, &[OBSERVED, OBSERVED_2], claimed);
                out.count("c15.twins_split_compared");
                // the two accounts settle separately: sub-unit rounding once per settlement and update of either
                let n_round = (base_ops.iter().filter(|o| involves(o, OBSERVED) || is_update(o)).count() as u128 + 1) * 2;
                let d = if e2 > e1 { e2 - e1 } else { e1 - e2 };
                if d >= Uint512::from(n_round) * Uint512::from(e18()) {
                    out.violation(P, "independent_of_account_split", format!("{} earned {} e-18 with one account but {} e-18 with the same position split over two accounts", OBSERVED, e1, e2));
                }
            } else {
                out.count("c15.twins_split_discarded");
            }
        }
    }
}

pub fn accrued_of(s: &Snap, a: &str) -> Uint512 {
    match s.holders.get(a) {
        None => Uint512::zero(),
        Some(h) => Uint512::from(s.global_index.saturating_sub(h.index)) * Uint512::from(h.balance) + Uint512::from(h.pending),
    }
}

impl C15 {
    fn compare(&self, s: &Snap, out: &mut Out, when: &str) {
        let addrs: std::collections::BTreeSet<&String> = s.holders.keys().chain(self.expected.keys()).collect();
        for a in addrs {
            let acc = accrued_of(s, a) * e18();
            let exp = self.expected.get(a).cloned().unwrap_or_default();
            let eps = self.eps.get(a).cloned().unwrap_or_default();
            // (a contract may carry the sub-unit remainder of one update's division into the next: a holder can then be
            // ahead of its exact share by less than a base unit per update - "within sub-unit rounding" cuts both ways)
            if acc > exp + eps {
                out.violation(P, "never_more_than_share", format!("{}: {} has accrued {} e-36 but its exact pro-rata share is {} e-36", when, a, acc, exp));
                return;
            }
            if exp > acc && exp - acc > eps {
                out.violation(P, "share_within_rounding", format!("{}: {} has accrued {} e-36, exact share {} e-36, shortfall {} above the truncation allowance {}", when, a, acc, exp, exp - acc, eps));
                return;
            }
        }
        out.count("c15.ledger_comparisons");
    }
}

impl Monitor for C15 {
    fn on_start(&mut self, w: &World, _s: &Snap, _cfg: &Cfg, _out: &mut Out) {
        self.w0 = Some(w.clone());
    }

    fn on_end(&mut self, _w: &World, _s: &Snap, _cfg: &Cfg, rng: &mut Rng, out: &mut Out) {
        self.twins(rng, out);
    }

    fn on_step(&mut self, c: &Ctx, _rng: &mut Rng, out: &mut Out) {
        self.ops.push((c.op.clone(), c.res.ok()));
        let (pre, post) = (c.pre, c.post);
        if c.res.ok() {
            if reward_updates_in(c) > 0 && pre.reward_total_balance > 0 {
                // holders' balances do not change inside an index update; the delivered amount is what the
                // contract newly recorded
                let claimed = post.prev_reward_balance.saturating_sub(pre.prev_reward_balance);
                self.updates += 1;
                // "holdings" are the bSei token balances (the reward contract's own records are what is being judged)
                let total = Uint512::from(pre.bsei.supply.max(1));
                let mut n_holders = 0;
                for (a, bal) in pre.bsei.balances.iter() {
                    if *bal == 0 {
                        continue;
                    }
                    n_holders += 1;
                    let term = Uint512::from(*bal) * Uint512::from(claimed) * e18() * e18() / total;
                    *self.expected.entry(a.clone()).or_default() += term;
                    // truncated index increment: less than balance * 1e-18 coin
                    // "within sub-unit rounding": less than one base unit per index update (the shipped contract loses
                    // balance x 1e-18, any rounding below one base unit is within the statement)
                    let _ = bal;
                    *self.eps.entry(a.clone()).or_default() += e18() * e18();
                }
                out.count("c15.updates_with_holders");
                if n_holders >= 3 {
                    out.count("c15.updates_with_3plus_holders");
                }
                out.distinct(&("update", n_holders.min(12), decade(claimed), decade(pre.reward_total_balance)));
            }
            if let Op::ClaimRewards { user, .. } = c.op {
                let paid = pre.prev_reward_balance - post.prev_reward_balance;
                let e = self.expected.entry(user.clone()).or_default();
                let sub = Uint512::from(paid) * e18() * e18();
                let slack = self.eps.get(user).cloned().unwrap_or_default();
                if *e >= sub {
                    *e -= sub;
                } else if *e + slack >= sub {
                    *e = Uint512::zero();
                } else {
                    out.violation(P, "never_more_than_share", format!("{} claimed {} which exceeds its exact share {} e-36", user, paid, e));
                }
                out.count("c15.claims");
            }
            // every balance change settles once (one more sub-1e-18 truncation)
            for (a, h1) in post.holders.iter() {
                let b0 = pre.holders.get(a).map(|h| h.balance).unwrap_or(0);
                if b0 != h1.balance {
                    *self.eps.entry(a.clone()).or_default() += e18() * e18();
                    // accrued rewards stay with the holder who earned them
                    let a0 = accrued_of(pre, a);
                    let a1 = accrued_of(post, a);
                    let moved = reward_updates_in(c) == 0;
                    // "moves no past rewards": nothing of a whole base unit's size comes or goes (sub-unit rounding
                    // at a settlement is within the statement)
                    let d = if a0 > a1 { a0 - a1 } else { a1 - a0 };
                    if moved && d >= Uint512::from(e18()) {
                        out.violation(P, "past_rewards_stay", format!("{}: balance {} -> {} changed {}'s accrued rewards {} -> {} e-18", c.op.kind(), b0, h1.balance, a, a0, a1));
                    }
                    out.count("c15.balance_changes_checked");
                }
            }
        }
        self.compare(post, out, &format!("after step {} ({})", c.step, c.op.kind()));
    }
}
