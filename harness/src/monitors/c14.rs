//! C14 — bSei reward pool is solvent and complete.

use crate::chain::Ev;
use crate::mon::*;
use crate::monitors::c19::accrued_atomics;
use crate::ops::*;
use crate::rng::Rng;
use crate::setup::*;
use crate::snap::Snap;
use cosmwasm_std::Uint256;
use std::collections::BTreeSet;

const P: &str = "C14";

#[derive(Default)]
pub struct C14 {
    index_updates: u64,
    holders_seen: BTreeSet<String>,
    delivered: u128,
    claimed: u128,
}

fn e18() -> Uint256 {
    Uint256::from(E18)
}

pub fn reward_updates_in(c: &Ctx) -> usize {
    c.res
        .trace()
        .map(|t| t.execs.iter().filter(|e| e.callee == REWARD && e.msg.starts_with("{\"update_global_index\"")).count())
        .unwrap_or(0)
}

impl C14 {
    fn invariant(&mut self, s: &Snap, out: &mut Out, when: &str) {
        for (a, h) in s.holders.iter() {
            if h.balance > 0 || h.pending > 0 || h.index > 0 {
                self.holders_seen.insert(a.clone());
            }
        }
        // the AccruedRewards query reports the whole-unit part of what the holder record implies
        for (a, h) in s.holders.iter() {
            let exact = Uint256::from(s.global_index.saturating_sub(h.index)) * Uint256::from(h.balance) + Uint256::from(h.pending);
            if Uint256::from(h.accrued_query) != exact / e18() {
                out.violation(P, "accrued_query_faithful", format!("{}: AccruedRewards({}) = {} but the holder record implies {} e-18", when, a, h.accrued_query, exact));
                return;
            }
        }
        let acc = accrued_atomics(s);
        let rec = Uint256::from(s.prev_reward_balance) * e18();
        out.count("c14.invariant_checks");
        if acc > rec {
            out.violation(P, "claimable_within_recorded", format!("{}: holders' accrued rewards {} e-18 exceed the recorded reward balance {}", when, acc, s.prev_reward_balance));
        }
        if s.prev_reward_balance > s.reward_bank {
            out.violation(P, "recorded_within_actual", format!("{}: recorded reward balance {} exceeds the actual balance {}", when, s.prev_reward_balance, s.reward_bank));
        }
        // nothing stranded: one unit per index update (truncated increment) + sub-unit settlements
        let allowance = Uint256::from(self.index_updates + self.holders_seen.len() as u64 + 1) * e18();
        if rec > acc + allowance {
            out.violation(
                P,
                "nothing_stranded",
                format!("{}: recorded balance {} minus accrued {} e-18 exceeds the dust allowance ({} updates, {} holders)", when, s.prev_reward_balance, acc, self.index_updates, self.holders_seen.len()),
            );
        }
        if s.reward_total_balance == 0 {
            out.count("c14.states_with_no_holder");
        }
    }
}

impl Monitor for C14 {
    fn on_step(&mut self, c: &Ctx, _rng: &mut Rng, out: &mut Out) {
        let (pre, post) = (c.pre, c.post);
        // deliveries / payments observed at the bank
        if post.reward_bank > pre.reward_bank {
            self.delivered += post.reward_bank - pre.reward_bank;
        }
        // attempts are counted whatever the outcome (a contract may refuse an update while nobody holds bSei)
        if let Op::Raw { contract, msg, .. } = c.op {
            if contract == REWARD && msg.starts_with("{\"update_global_index\"") && pre.reward_total_balance == 0 && pre.reward_bank > pre.prev_reward_balance {
                out.count("c14.index_update_attempts_without_holders_with_undistributed_delivery");
            }
        }
        if c.res.ok() {
            let n = reward_updates_in(c);
            if n > 0 && pre.reward_total_balance > 0 {
                self.index_updates += n as u64;
                out.count("c14.index_updates_with_holders");
            } else if n > 0 {
                out.count("c14.index_updates_without_holders");
                if pre.reward_bank > pre.prev_reward_balance {
                    out.count("c14.index_updates_without_holders_with_undistributed_delivery");
                }
                if post.prev_reward_balance != pre.prev_reward_balance || post.global_index != pre.global_index {
                    out.violation(P, "update_without_holders_strands_nothing", "an index update while nobody holds bSei changed the recorded balance or the index".into());
                }
            }
        }
        if let Op::ClaimRewards { user, recipient } = c.op {
            let h = pre.holders.get(user);
            let acc: Uint256 = h
                .map(|h| Uint256::from(pre.global_index.saturating_sub(h.index)) * Uint256::from(h.balance) + Uint256::from(h.pending))
                .unwrap_or_default();
            let whole = to128(acc / e18());
            let frac = to128(acc - Uint256::from(whole) * e18());
            if c.res.ok() {
                out.count("c14.claims_ok");
                let to = recipient.as_ref().unwrap_or(user);
                let sent: u128 = c
                    .res
                    .trace()
                    .unwrap()
                    .evs()
                    .filter_map(|e| match e {
                        Ev::BankSend { from, to: t, coins } if from == REWARD && t == to => Some(coins.iter().filter(|x| x.denom == KUSD).map(|x| x.amount.u128()).sum::<u128>()),
                        _ => None,
                    })
                    .sum();
                self.claimed += sent;
                if sent != whole {
                    out.violation(P, "claim_pays_whole_units", format!("{} accrued {} e-18 but was paid {}", user, acc, sent));
                }
                if pre.reward_bank - post.reward_bank != sent {
                    out.violation(P, "claim_pays_whole_units", format!("reward contract balance fell by {} but {} was sent to the recipient", pre.reward_bank - post.reward_bank, sent));
                }
                // what stays accrued after the claim is exactly the fraction
                let left: Uint256 = post
                    .holders
                    .get(user)
                    .map(|h| Uint256::from(post.global_index.saturating_sub(h.index)) * Uint256::from(h.balance) + Uint256::from(h.pending))
                    .unwrap_or_default();
                if left != Uint256::from(frac) {
                    out.violation(P, "claim_keeps_fraction", format!("{}: fraction {} e-18 should be kept, accrued after the claim is {} e-18", user, frac, left));
                }
                if pre.prev_reward_balance - post.prev_reward_balance != sent {
                    out.violation(P, "claim_reduces_recorded", format!("recorded balance {} -> {} after paying {}", pre.prev_reward_balance, post.prev_reward_balance, sent));
                }
                if recipient.is_some() {
                    out.count("c14.claims_to_third_party");
                }
                if frac > 0 {
                    out.count("c14.claims_keeping_a_fraction");
                }
                out.distinct(&("claim", decade(sent), frac > 0, recipient.is_some(), pre.holders.values().filter(|h| h.balance > 0).count().min(12)));
            } else if whole >= 1 {
                // "never fails for lack of funds": judged when funds are what is lacking (the recorded or the actual
                // balance does not cover the whole units accrued) or when the contract aborted; a refusal with the
                // funds at hand (a minimum claim, say) is a policy the statement does not speak about
                let t = c.res.tx.as_ref().unwrap();
                if pre.prev_reward_balance < whole || pre.reward_bank < whole || t.panicked {
                    out.violation(P, "claim_never_fails_for_funds", format!("{} has accrued {} whole units (recorded balance {}, actual {}) but ClaimRewards failed: {}", user, whole, pre.prev_reward_balance, pre.reward_bank, t.err));
                } else {
                    out.count("c14.claims_refused_with_funds_available");
                }
            } else {
                out.count("c14.claims_rejected_below_one_unit");
            }
        }
        if self.claimed > self.delivered {
            out.violation(P, "claimed_within_delivered", format!("claimed {} exceeds delivered {}", self.claimed, self.delivered));
        }
        self.invariant(post, out, &format!("after step {} ({})", c.step, c.op.kind()));
        if reward_updates_in(c) > 0 && c.res.ok() && pre.reward_total_balance > 0 {
            let claimed = post.prev_reward_balance.saturating_sub(pre.prev_reward_balance);
            out.distinct(&("update", decade(claimed), decade(pre.reward_total_balance), pre.holders.values().filter(|h| h.balance > 0).count().min(12)));
            if claimed == 1 && pre.reward_total_balance >= E18 / 10 {
                out.count("c14.updates_one_unit_against_huge_supply");
            }
            if claimed >= E18 / 1000 && pre.reward_total_balance <= 10 {
                out.count("c14.updates_huge_reward_against_dust_supply");
            }
        }
    }
}
