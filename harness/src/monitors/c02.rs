//! C02 — hub never books more stake than is delegated; bonds are delegated in full.

use crate::chain::Ev;
use crate::mon::*;
use crate::ops::*;
use crate::rng::Rng;
use crate::setup::*;

const P: &str = "C02";

#[derive(Default)]
pub struct C02 {
    since_removal: u64,
    slashed_pending: bool,
}

fn is_pricing(op: &Op) -> bool {
    matches!(
        op,
        Op::Bond { .. } | Op::BondStSei { .. } | Op::Unbond { .. } | Op::Convert { .. } | Op::CheckSlashing { .. }
    )
}

impl Monitor for C02 {
    fn on_step(&mut self, c: &Ctx, _rng: &mut Rng, out: &mut Out) {
        if let Op::Slash { .. } = c.op {
            self.slashed_pending = true;
        }
        if let Op::RemoveValidator { .. } = c.op {
            if c.res.ok() {
                self.since_removal = 0;
            }
        }
        self.since_removal += 1;
        let tr = match c.res.trace() {
            Some(t) if c.res.ok() => t,
            _ => return,
        };
        // Does the transaction contain a hub execution that runs the slashing check?
        let mut hub_pricing = false;
        for (i, e) in tr.execs.iter().enumerate() {
            if e.callee != HUB {
                continue;
            }
            let is_bond = e.msg.starts_with("{\"bond\"") || e.msg.starts_with("{\"bond_for_st_sei\"") || e.msg.starts_with("{\"bond_rewards\"");
            if is_bond || e.msg.starts_with("{\"receive\"") || e.msg.starts_with("{\"check_slashing\"") {
                hub_pricing = true;
            }
            if is_bond {
                let payment: u128 = e.funds.iter().filter(|f| f.denom == USEI).map(|f| f.amount.u128()).sum();
                let mut delegated = 0u128;
                let mut targets = vec![];
                for ev in tr.events.iter().filter(|x| x.exec == i) {
                    if let Ev::Delegate { delegator, validator, amount } = &ev.ev {
                        if delegator == HUB {
                            delegated += *amount;
                            targets.push(validator.clone());
                        }
                    }
                }
                out.count("c02.bond_executions");
                if delegated != payment {
                    out.violation(P, "bond_delegated_in_full", format!("{} of {} sent with {} but {} delegated", payment, USEI, &e.msg, delegated));
                }
                // registered = listed by the registry's query or held in its storage (a query may list a shortlist only)
                let mut reg: Vec<&String> = c.pre.registry.iter().map(|x| &x.0).collect();
                if let Some(raw) = &c.pre.raw_registry {
                    reg.extend(raw.iter());
                }
                for t in &targets {
                    if !reg.contains(&t) {
                        out.violation(P, "only_registered_validators", format!("bond delegated to {} which is not registered (registry {:?})", t, reg));
                    }
                }
                // antecedents
                let n = c.pre.registry.len();
                if n >= 3 && targets.len() < n {
                    out.count("c02.bonds_3plus_validators_some_skipped");
                }
                if self.since_removal <= 3 {
                    out.count("c02.bonds_right_after_removal");
                }
                out.distinct(&("bond", n, targets.len(), decade(payment), self.slashed_pending));
            }
        }
        if is_pricing(c.op) || hub_pricing {
            out.count("c02.pricing_ops");
            if self.slashed_pending {
                out.count("c02.pricing_ops_with_pending_slashing");
            }
            let books = c.post.raw_pool_b + c.post.raw_pool_s;
            if books > c.post.total_delegated {
                out.violation(
                    P,
                    "books_not_above_delegated",
                    format!("after {}: stored pools {} + {} = {} exceed delegated {}", c.op.kind(), c.post.raw_pool_b, c.post.raw_pool_s, books, c.post.total_delegated),
                );
            }
            self.slashed_pending = false;
        }
        // unbond: books fall by exactly what is undelegated
        if let Op::Unbond { .. } = c.op {
            let und: u128 = tr.evs().filter_map(|e| if let Ev::Undelegate { delegator, amount, .. } = e { if delegator == HUB { Some(*amount) } else { None } } else { None }).sum();
            let n_und = tr.evs().filter(|e| matches!(e, Ev::Undelegate { .. })).count();
            let before = c.pre.pool_b + c.pre.pool_s;
            let after = c.post.raw_pool_b + c.post.raw_pool_s;
            if before < after || before - after != und {
                out.violation(P, "undelegation_leaves_books", format!("books {} -> {} but {} undelegated", before, after, und));
            }
            if und > 0 {
                out.count("c02.undelegating_unbonds");
                if n_und >= 2 {
                    out.count("c02.unbonds_undelegating_from_2plus_validators");
                }
                out.distinct(&("undelegate", n_und.min(8), decade(und)));
            }
            let matched = c.pre.total_delegated - c.post.total_delegated;
            if matched != und {
                out.violation(P, "undelegation_leaves_books", format!("delegated fell by {} but undelegate messages sum to {}", matched, und));
            }
        }
        // "Bonding, reward re-bonding, conversion and index updates leave the hub's liquid coin balance unchanged" (a
        // validator removal runs an index update; the other kinds - unbond, slashing checks, burns - are not listed)
        let keeps_balance = matches!(c.op, Op::Bond { .. } | Op::BondStSei { .. } | Op::Convert { .. } | Op::UpdateGlobalIndex { .. } | Op::RemoveValidator { .. });
        if keeps_balance {
            if c.pre.hub_bank != c.post.hub_bank {
                out.violation(P, "hub_balance_untouched", format!("{} changed the hub's liquid balance {} -> {}", c.op.kind(), c.pre.hub_bank, c.post.hub_bank));
            }
            out.count("c02.balance_checks");
        }
    }
}
