//! C18 — both tokens conserve supply; only the hub mints and burns.

use crate::mon::*;
use crate::ops::*;
use crate::rng::Rng;
use crate::setup::*;
use crate::snap::Snap;
use cw20::{AllowanceResponse, Cw20QueryMsg, MinterResponse};
use std::collections::BTreeMap;

const P: &str = "C18";

#[derive(Clone, Debug, PartialEq)]
struct Allow {
    amount: u128,
    exp: Exp,
}

#[derive(Default)]
pub struct C18 {
    /// shadow allowance ledger: (token, owner, spender)
    allow: BTreeMap<(Tok, String, String), Allow>,
}

fn expired(e: Exp, height: u64, time: u64) -> bool {
    match e {
        Exp::None | Exp::Never => false,
        Exp::AtHeight(h) => height >= h,
        Exp::AtTime(t) => time >= t,
    }
}

fn conservation(s: &Snap, out: &mut Out, when: &str) {
    for (name, t) in [("bSei", &s.bsei), ("stSei", &s.stsei)] {
        let sum: u128 = t.enumerated.iter().map(|a| t.balances.get(a).cloned().unwrap_or(0)).sum();
        out.count("c18.conservation_checks");
        if sum != t.supply {
            out.violation(P, "sum_of_balances_equals_supply", format!("{}: {} balances of {} accounts sum to {} but total supply is {}", when, name, t.enumerated.len(), sum, t.supply));
        }
        for (a, b) in t.balances.iter() {
            if *b > 0 && !t.enumerated.contains(a) {
                out.violation(P, "sum_of_balances_equals_supply", format!("{}: {} holds {} {} but is not listed by AllAccounts", when, a, b, name));
            }
        }
    }
}

impl Monitor for C18 {
    fn on_start(&mut self, w: &crate::chain::World, s: &Snap, _cfg: &Cfg, out: &mut Out) {
        conservation(s, out, "after instantiation");
        for t in [BSEI, STSEI] {
            match w.q::<Option<MinterResponse>, _>(t, &Cw20QueryMsg::Minter {}) {
                Ok(Some(m)) if m.minter == HUB => {}
                other => out.violation(P, "minter_is_hub", format!("{} minter is {:?}", t, other)),
            }
        }
        let dup = |t: &crate::snap::TokSnap| t.supply > 0;
        if dup(&s.bsei) || dup(&s.stsei) {
            out.count("c18.worlds_with_initial_balances");
        }
    }

    fn on_step(&mut self, c: &Ctx, _rng: &mut Rng, out: &mut Out) {
        let (pre, post) = (c.pre, c.post);
        conservation(post, out, &format!("after step {} ({})", c.step, c.op.kind()));
        let ok = c.res.ok();
        let (h, t) = (pre.height, pre.time);
        match c.op {
            Op::Transfer { tok, .. } | Op::SendDummy { tok, .. } | Op::TransferFrom { tok, .. } => {
                if ok && pre.tok(*tok).supply != post.tok(*tok).supply {
                    out.violation(P, "transfers_conserve_supply", format!("{} changed the {:?} supply {} -> {}", c.op.kind(), tok, pre.tok(*tok).supply, post.tok(*tok).supply));
                }
                if ok {
                    out.count("c18.transfers_ok");
                }
            }
            Op::Mint { tok, sender, amount, .. } => {
                if ok {
                    if sender != HUB {
                        out.violation(P, "only_hub_mints", format!("{} minted {} {:?}", sender, amount, tok));
                    }
                    out.count("c18.mints_by_hub");
                } else if sender != HUB {
                    out.count("c18.mints_by_others_rejected");
                }
            }
            Op::Burn { tok, user, amount } => {
                if ok {
                    if user != HUB {
                        out.violation(P, "only_hub_burns", format!("{} burnt {} {:?} via Burn", user, amount, tok));
                    }
                    out.count("c18.burns_by_hub");
                    if pre.tok(*tok).supply - post.tok(*tok).supply != *amount {
                        out.violation(P, "burn_reduces_supply", format!("Burn of {} changed supply {} -> {}", amount, pre.tok(*tok).supply, post.tok(*tok).supply));
                    }
                } else if user != HUB {
                    out.count("c18.burns_by_others_rejected");
                }
            }
            _ => {}
        }
        // allowance ledger
        match c.op {
            Op::IncreaseAllowance { tok, owner, spender, amount, expires } if ok => {
                let e = self.allow.entry((*tok, owner.clone(), spender.clone())).or_insert(Allow { amount: 0, exp: Exp::Never });
                let lapsed = expired(e.exp, h, t);
                if *expires != Exp::None {
                    e.exp = *expires;
                    e.amount += *amount;
                } else if lapsed || e.amount == 0 {
                    // an increase without a deadline on a grant that has already lapsed: cw20 keeps the grant lapsed
                    // (old amount + new, old deadline); a token may as well start a fresh grant of the new amount
                    // without a deadline - the owner asked for exactly that. Both are within "the unexpired allowance
                    // granted by the owner"; the ledger follows the contract when it reports the fresh grant.
                    let fresh = c
                        .w_post
                        .q::<AllowanceResponse, _>(tok.addr(), &Cw20QueryMsg::Allowance { owner: owner.clone(), spender: spender.clone() })
                        .map(|r| r.allowance.u128() <= *amount && matches!(r.expires, cw20::Expiration::Never {}))
                        .unwrap_or(false);
                    // (also when the old grant had been used up: a token may delete an exhausted grant, the next
                    // increase then starts a new one)
                    if fresh {
                        e.amount = *amount;
                        e.exp = Exp::Never;
                        out.count("c18.lapsed_grants_restarted");
                    } else {
                        e.amount += *amount;
                    }
                } else {
                    e.amount += *amount;
                }
                out.count("c18.allowance_increases");
            }
            Op::DecreaseAllowance { tok, owner, spender, amount, expires } if ok => {
                let k = (*tok, owner.clone(), spender.clone());
                if let Some(e) = self.allow.get_mut(&k) {
                    if *amount >= e.amount {
                        self.allow.remove(&k);
                    } else {
                        e.amount -= *amount;
                        if *expires != Exp::None {
                            e.exp = *expires;
                        }
                    }
                }
                out.count("c18.allowance_decreases");
            }
            _ => {}
        }
        let spend = match c.op {
            Op::TransferFrom { tok, spender, owner, amount, .. } => Some((*tok, spender, owner, *amount, "transfer_from")),
            Op::BurnFrom { tok, spender, owner, amount } => Some((*tok, spender, owner, *amount, "burn_from")),
            Op::Unbond { tok, user, owner: Some(o), amount } => Some((*tok, user, o, *amount, "send_from")),
            Op::Convert { tok, user, owner: Some(o), amount } => Some((*tok, user, o, *amount, "send_from")),
            _ => None,
        };
        if let Some((tok, spender, owner, amount, kind)) = spend {
            let k = (tok, owner.clone(), spender.clone());
            let cur = self.allow.get(&k).cloned();
            if ok {
                out.count(&format!("c18.{}_ok", kind));
                match cur {
                    None => out.violation(P, "allowance_respected", format!("{} of {} {:?} by {} from {} succeeded without any allowance", kind, amount, tok, spender, owner)),
                    Some(a) => {
                        if expired(a.exp, h, t) {
                            out.violation(P, "allowance_respected", format!("{} by {} from {} used an expired allowance ({:?} at height {} time {})", kind, spender, owner, a.exp, h, t));
                        }
                        if amount > a.amount {
                            out.violation(P, "allowance_respected", format!("{} of {} by {} from {} exceeds the allowance {}", kind, amount, spender, owner, a.amount));
                        } else {
                            self.allow.get_mut(&k).unwrap().amount -= amount;
                        }
                        if a.exp != Exp::Never {
                            out.count("c18.spends_under_expiring_allowance");
                        }
                    }
                }
                let ob0 = pre.tok(tok).balances.get(owner).cloned().unwrap_or(0);
                let ob1 = post.tok(tok).balances.get(owner).cloned().unwrap_or(0);
                // when the owner is also the receiver the balance does not move
                let receiver: Option<&String> = match c.op {
                    Op::TransferFrom { to, .. } => Some(to),
                    _ => None,
                };
                let to_self = receiver == Some(owner) || (kind == "send_from" && owner == HUB);
                if !to_self && (ob0 < ob1 || ob0 - ob1 != amount) {
                    out.violation(P, "allowance_respected", format!("{}: owner balance {} -> {} for amount {}", kind, ob0, ob1, amount));
                }
                if kind == "burn_from" && pre.tok(tok).supply - post.tok(tok).supply != amount {
                    out.violation(P, "burn_reduces_supply", format!("BurnFrom of {} changed supply {} -> {}", amount, pre.tok(tok).supply, post.tok(tok).supply));
                }
            } else if let Some(a) = cur {
                if expired(a.exp, h, t) {
                    out.count("c18.spends_rejected_expired");
                } else if amount > a.amount {
                    out.count("c18.spends_rejected_over_allowance");
                }
            } else {
                out.count("c18.spends_rejected_no_allowance");
            }
        }
        // the contract never holds a spender to have more than the owner granted minus what was spent (the statement
        // bounds allowances from above; a contract that is stingier - e.g. does not revive an expired grant on an
        // increase - is within it, and the ledger follows the lower figure)
        for ((tok, owner, spender), a) in self.allow.iter_mut() {
            if let Ok(r) = c.w_post.q::<AllowanceResponse, _>(tok.addr(), &Cw20QueryMsg::Allowance { owner: owner.clone(), spender: spender.clone() }) {
                if r.allowance.u128() > a.amount {
                    out.violation(P, "allowance_ledger", format!("{:?} allowance {} -> {}: contract says {}, granted-minus-spent is {}", tok, owner, spender, r.allowance, a.amount));
                } else if r.allowance.u128() < a.amount {
                    out.count("c18.allowances_below_granted_minus_spent");
                    a.amount = r.allowance.u128();
                }
            }
        }
        // burns refresh the hub's exchange rates in the same transaction
        if let (true, Some(tr)) = (ok, c.res.trace()) {
            let needs = matches!(c.op, Op::BurnFrom { .. }) || matches!(c.op, Op::Burn { tok: Tok::St, .. });
            // any stSei burn inside any transaction (unbond / convert included)
            let st_burn = tr.execs.iter().any(|e| e.callee == STSEI && (e.msg.starts_with("{\"burn\"") || e.msg.starts_with("{\"burn_from\"")));
            let b_burn_from = tr.execs.iter().any(|e| e.callee == BSEI && e.msg.starts_with("{\"burn_from\""));
            if needs || st_burn || b_burn_from {
                out.count("c18.burns_requiring_rate_refresh");
                let refreshed = tr.execs.iter().any(|e| e.callee == HUB && e.msg.starts_with("{\"check_slashing\""));
                if !refreshed {
                    out.violation(P, "burn_refreshes_rates", format!("{} burnt tokens without the hub's CheckSlashing in the same transaction", c.op.kind()));
                }
            }
        }
        if ok && !c.op.is_env() {
            out.distinct(&(c.op.kind(), post.bsei.enumerated.len().min(16), post.stsei.enumerated.len().min(16), self.allow.len().min(10)));
        }
    }
}
