//! C17 — dispatcher splits rewards by bonded stake, takes a bounded fee, keeps nothing.

use crate::chain::{Ev, Trace, World};
use crate::mon::*;
use crate::monitors::c19::classify_zero_coin;
use crate::ops::*;
use crate::rng::Rng;
use crate::setup::*;
use crate::snap::{self, Snap};
use cosmwasm_std::Uint512;

const P: &str = "C17";

#[derive(Default)]
pub struct C17 {}

pub fn dispatcher_cfg(w: &World) -> Option<basset::dispatcher::ConfigResponse> {
    w.q(DISPATCHER, &basset_sei_rewards_dispatcher::msg::QueryMsg::Config {}).ok()
}

fn parse_swap(msg: &str) -> Option<(u128, u128)> {
    let v: serde_json::Value = serde_json::from_str(msg).ok()?;
    let m = v.get("swap_to_reward_denom")?;
    let b = m.get("bsei_total_bonded")?.as_str()?.parse::<u128>().ok()?;
    let s = m.get("stsei_total_bonded")?.as_str()?.parse::<u128>().ok()?;
    Some((b, s))
}

impl C17 {
    fn judge_swap(&self, c: &Ctx, exec_idx: usize, tr: &Trace, pre: &Snap, post: &Snap, out: &mut Out) {
        let e = &tr.execs[exec_idx];
        let (bb, bs) = match parse_swap(&e.msg) {
            Some(x) => x,
            None => return,
        };
        let cfg = match dispatcher_cfg(c.w_pre) {
            Some(x) => x,
            None => return,
        };
        let p = c.w_pre.price.atomics().u128();
        out.count("c17.swaps_judged");
        let u0 = pre.bal(DISPATCHER, USEI);
        let k0 = pre.bal(DISPATCHER, KUSD);
        // conversion of extra denominations (simulated = executed by the stub)
        let mut kt = k0;
        let mut has_extra = false;
        if cfg.swap_denoms.iter().any(|d| d == UATOM) {
            let x = pre.bal(DISPATCHER, UATOM);
            if x > 0 {
                kt += mul_rate(x, c.w_pre.other_prices[UATOM].atomics().u128());
                has_extra = true;
            }
        }
        // every SwapDenom the dispatcher requested in this execution: funds never above holdings at that time.
        // The bank rejects an overdraft, so an offer above the holdings shows up as a failed transaction; here
        // (successful transaction) we additionally check the declared offer against the attribute.
        let swaps: Vec<&crate::chain::ExecRec> = tr.execs.iter().filter(|x| x.caller == DISPATCHER && x.callee == SWAP).collect();
        // the balancing swap is the SwapDenom whose offered coin is one of the two reward coins
        let main: Vec<&crate::chain::ExecRec> = swaps.iter().filter(|x| x.funds.len() == 1 && (x.funds[0].denom == USEI || x.funds[0].denom == KUSD)).cloned().collect();
        // "never offers more of a coin than it holds": the bank refuses an overdraft, so in a transaction that went
        // through every offer was covered by what the dispatcher held at that moment (including proceeds of earlier
        // conversions, whatever coin they were converted into); an overdraft shows as the failure judged in `on_step`
        let offered = |d: &str| -> u128 { main.iter().filter(|x| x.funds[0].denom == d).map(|x| x.funds[0].amount.u128()).sum() };
        let offer_u = offered(USEI);
        let offer_denom = if offer_u > 0 { USEI } else { KUSD };
        if bb + bs == 0 {
            return;
        }
        // stSei-side holding after the swap vs. total rewards x stSei bonded / total bonded, at the oracle price
        let u1 = post.bal(DISPATCHER, USEI);
        let den = Uint512::from(p) * Uint512::from(bb + bs);
        let target_num = (Uint512::from(u0) * Uint512::from(p) + Uint512::from(kt) * Uint512::from(E18)) * Uint512::from(bs);
        let lhs = Uint512::from(u1) * den;
        let diff = if lhs > target_num { lhs - target_num } else { target_num - lhs };
        // rounding allowance in stSei-reward coin: share floor, inverse-price truncation and two swap floors (each below
        // one unit of the coin received: one usei, or one kusd = 1/p usei)
        let inv_p_ceil = mul_div_ceil(E18, 1, p.max(1)).max(1);
        let tol = 4 + (1 + main.len().max(1) as u128) * inv_p_ceil;
        if diff > Uint512::from(tol) * den {
            out.violation(
                P,
                "split_by_bonded_stake",
                format!(
                    "holdings ({} usei, {} kusd incl. conversions) bonded (bSei {}, stSei {}) price {}: stSei-side holding after swap {} deviates from the pro-rata share by more than {} (diff/den = {})",
                    u0, kt, bb, bs, c.w_pre.price, u1, tol, diff / den
                ),
            );
        }
        let _ = k0;
        out.distinct(&("swap", decade(u0), decade(kt), bb == 0, bs == 0, decade(bb), decade(bs), decade(p), offer_denom == USEI, has_extra));
        if has_extra {
            out.count("c17.swaps_with_extra_denom");
        }
        if bb == 0 || bs == 0 {
            out.count("c17.swaps_one_sided_bonded");
        }
        if u0 == 0 || k0 == 0 {
            out.count("c17.swaps_one_sided_balances");
        }
    }

    fn judge_dispatch(&self, c: &Ctx, exec_idx: usize, tr: &Trace, pre_u: u128, pre_k: u128, post: &Snap, out: &mut Out) {
        let cfg = match dispatcher_cfg(c.w_pre) {
            Some(x) => x,
            None => return,
        };
        let kr = cfg.krp_keeper_rate.atomics().u128();
        out.count("c17.dispatches_judged");
        let mut keeper = std::collections::BTreeMap::<String, (u128, usize)>::new();
        let mut reward: Option<(u128, usize)> = None;
        for e in tr.events.iter().filter(|e| e.exec == exec_idx) {
            if let Ev::BankSend { from, to, coins } = &e.ev {
                if from != DISPATCHER {
                    continue;
                }
                for cn in coins {
                    if to == KEEPER {
                        let k = keeper.entry(cn.denom.clone()).or_insert((0, e.seq));
                        k.0 += cn.amount.u128();
                    } else if to == REWARD && cn.denom == KUSD {
                        let r = reward.get_or_insert((0, e.seq));
                        r.0 += cn.amount.u128();
                        r.1 = e.seq;
                    } else {
                        out.violation(P, "right_recipients", format!("DispatchRewards sent {} to {}", cn, to));
                    }
                }
            }
        }
        let rebond: Vec<&crate::chain::ExecRec> = tr.execs.iter().filter(|x| x.caller == DISPATCHER && x.callee == HUB).collect();
        let mut rebond_amount = 0u128;
        for x in rebond.iter() {
            // the stSei share has to be *re-bonded*: coins travel to the hub with BondRewards only (a plain bond would
            // mint tokens to the dispatcher); other calls that carry no coins are not the property's subject
            if !x.msg.starts_with("{\"bond_rewards\"") {
                if x.funds.iter().any(|f| !f.amount.is_zero()) {
                    out.violation(P, "rebond_via_bond_rewards", format!("dispatcher sent coins to the hub with {}", x.msg));
                } else {
                    out.count("c17.other_coinless_calls_to_the_hub");
                }
            }
            rebond_amount += x.funds.iter().filter(|f| f.denom == USEI).map(|f| f.amount.u128()).sum::<u128>();
        }
        let idx_update: Vec<&crate::chain::ExecRec> = tr.execs.iter().filter(|x| x.caller == DISPATCHER && x.callee == REWARD).collect();
        // "bSei share to the reward contract followed by an index update": when a share was sent, an UpdateGlobalIndex
        // must run after the (last) transfer; without a share none is needed, and extra updates are harmless
        let updates: Vec<&&crate::chain::ExecRec> = idx_update.iter().filter(|x| x.msg.starts_with("{\"update_global_index\"")).collect();
        if let Some((amount, seq)) = reward {
            if amount > 0 && !updates.iter().any(|u| u.seq > seq) {
                out.violation(P, "index_update_follows", format!("{} sent to the reward contract but no UpdateGlobalIndex follows (dispatcher -> reward calls: {:?})", amount, idx_update.iter().map(|x| x.msg.clone()).collect::<Vec<_>>()));
            }
        } else if updates.is_empty() {
            out.count("c17.dispatches_without_share_and_without_update");
        }
        let ku = keeper.get(USEI).map(|x| x.0).unwrap_or(0);
        let kk = keeper.get(KUSD).map(|x| x.0).unwrap_or(0);
        if ku != mul_rate(pre_u, kr) || kk != mul_rate(pre_k, kr) {
            out.violation(P, "keeper_fee_exact", format!("held ({} usei, {} kusd), keeper rate {}: keeper got ({}, {}), expected ({}, {})", pre_u, pre_k, cfg.krp_keeper_rate, ku, kk, mul_rate(pre_u, kr), mul_rate(pre_k, kr)));
        }
        if ku + rebond_amount != pre_u {
            out.violation(P, "forwards_everything", format!("held {} usei but sent keeper {} + re-bond {}", pre_u, ku, rebond_amount));
        }
        if kk + reward.map(|x| x.0).unwrap_or(0) != pre_k {
            out.violation(P, "forwards_everything", format!("held {} kusd but sent keeper {} + reward contract {}", pre_k, kk, reward.map(|x| x.0).unwrap_or(0)));
        }
        if post.bal(DISPATCHER, USEI) != 0 || post.bal(DISPATCHER, KUSD) != 0 {
            out.violation(P, "keeps_nothing", format!("dispatcher still holds ({} usei, {} kusd)", post.bal(DISPATCHER, USEI), post.bal(DISPATCHER, KUSD)));
        }
        out.distinct(&("dispatch", decade(pre_u), decade(pre_k), kr == 0, kr == E18, decade(kr)));
        if pre_u == 0 && pre_k == 0 {
            out.count("c17.dispatches_with_nothing");
        }
    }
}

impl Monitor for C17 {
    fn on_step(&mut self, c: &Ctx, _rng: &mut Rng, out: &mut Out) {
        // configuration: the keeper rate can never be stored above 1
        if let Some(cfg) = dispatcher_cfg(c.w_post) {
            if cfg.krp_keeper_rate.atomics().u128() > E18 {
                out.violation(P, "keeper_rate_at_most_one", format!("stored keeper rate {}", cfg.krp_keeper_rate));
            }
        }
        let (contract, msg, sender) = match c.op {
            Op::Raw { contract, msg, sender, .. } => (contract, msg, sender),
            _ => return,
        };
        if contract != DISPATCHER || sender != HUB {
            return;
        }
        if msg.starts_with("{\"update_config\"") {
            return;
        }
        let is_swap = msg.starts_with("{\"swap_to_reward_denom\"");
        let is_dispatch = msg.starts_with("{\"dispatch_rewards\"");
        if !is_swap && !is_dispatch {
            return;
        }
        let stubs_ok = c.w_pre.swap_fault == crate::chain::Fault::Ok && c.w_pre.oracle_fault == crate::chain::Fault::Ok;
        if c.res.ok() {
            let tr = c.res.trace().unwrap();
            if is_swap {
                self.judge_swap(c, 0, tr, c.pre, c.post, out);
            } else {
                self.judge_dispatch(c, 0, tr, c.pre.bal(DISPATCHER, USEI), c.pre.bal(DISPATCHER, KUSD), c.post, out);
            }
            return;
        }
        if !stubs_ok {
            out.count("c17.failures_under_stub_faults");
            return;
        }
        let err = c.res.tx.as_ref().unwrap().err.clone();
        if is_swap {
            let (bb, bs) = parse_swap(msg).unwrap_or((0, 0));
            if bb + bs == 0 {
                out.count("c17.swaps_rejected_nothing_bonded");
                return;
            }
            // C17 promises that *dispatch* executes; of the swap it says that it never offers more of a coin than the
            // dispatcher holds - which, on a chain whose bank refuses overdrafts, shows as exactly this failure. Any
            // other refusal of a swap (nothing to swap, say) is C19's subject ("executes whenever stake is bonded").
            if err.contains("insufficient") && err.contains(DISPATCHER) {
                out.violation(P, "offer_within_holdings", format!("SwapToRewardDenom offered more than it holds: holdings ({} usei, {} kusd), bonded ({}, {}), price {}: {}", c.pre.bal(DISPATCHER, USEI), c.pre.bal(DISPATCHER, KUSD), bb, bs, c.w_pre.price, err));
            } else {
                out.count("c17.swaps_refused_for_other_reasons");
            }
            return;
        }
        // DispatchRewards failed: recorded zero-coin finding, or a violation
        let mut w = c.w_pre.clone();
        w.bank_lenient = true;
        let r2 = c.op.apply(&mut w);
        let kr = dispatcher_cfg(c.w_pre).map(|x| x.krp_keeper_rate.atomics().u128()).unwrap_or(0);
        match r2.trace().and_then(|t| classify_zero_coin(&err, t, kr)) {
            Some(sig) if r2.ok() => {
                out.known(P, "never_sends_zero_coins", sig, format!("DispatchRewards failed: {}", err));
                out.count("c17.dispatches_failed_by_known_zero_coin_transfer");
                let post2 = snap::take(&w);
                self.judge_dispatch(c, 0, r2.trace().unwrap(), c.pre.bal(DISPATCHER, USEI), c.pre.bal(DISPATCHER, KUSD), &post2, out);
            }
            _ => out.violation(P, "dispatch_executes", format!("DispatchRewards failed for holdings ({} usei, {} kusd): {}", c.pre.bal(DISPATCHER, USEI), c.pre.bal(DISPATCHER, KUSD), err)),
        }
    }
}
