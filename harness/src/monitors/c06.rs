//! C06 — slashing is recognised exactly and shared pro-rata between the two pools.

use crate::chain::Ev;
use crate::mon::*;
use crate::ops::*;
use crate::rng::Rng;
use crate::setup::*;
use crate::snap::Snap;
use cosmwasm_std::Uint256;
use std::collections::BTreeSet;

const P: &str = "C06";

#[derive(Default)]
pub struct C06 {
    inflow: u128,
    donated: u128,
    slashed_created: BTreeSet<u64>,
}

/// |x - a*b/t| <= tol, exactly (compare t*x with a*b)
fn within(x: u128, a: u128, b: u128, t: u128, tol: u128) -> bool {
    let lhs = Uint256::from(x) * Uint256::from(t);
    let rhs = Uint256::from(a) * Uint256::from(b);
    let d = if lhs > rhs { lhs - rhs } else { rhs - lhs };
    d <= Uint256::from(tol) * Uint256::from(t)
}

fn recognition(s: &Snap, out: &mut Out, when: &str) {
    // stored books (b, s), what the State query reports (b', s'), and the chain's delegation A
    let (b, st) = (s.raw_pool_b, s.raw_pool_s);
    let t = b + st;
    let a = s.total_delegated;
    if s.delegations.is_empty() || t == 0 {
        return;
    }
    let (b1, s1) = (s.pool_b, s.pool_s);
    if a >= t {
        out.count("c06.checks_no_slashing_pending");
        if b1 != b || s1 != st {
            out.violation(P, "no_change_without_slashing", format!("{}: delegated {} >= books {} but pools ({},{}) reported as ({},{})", when, a, t, b, st, b1, s1));
        }
        return;
    }
    out.count("c06.checks_with_slashing_pending");
    if b > 0 && st > 0 {
        out.count("c06.checks_both_pools_nonempty");
    } else {
        out.count("c06.checks_one_pool_empty");
    }
    if t - a == 1 {
        out.count("c06.checks_loss_of_one_unit");
    }
    if a * 2 < t {
        out.count("c06.checks_heavy_loss");
    }
    if b1 + s1 != a {
        out.violation(P, "books_equal_delegated", format!("{}: delegated {} < books {} but recognised pools {} + {} = {}", when, a, t, b1, s1, b1 + s1));
    }
    if !within(b1, a, b, t, 2) || !within(s1, a, st, t, 2) {
        out.violation(
            P,
            "pro_rata",
            format!("{}: books ({},{}) slashed to {}: pools ({},{}) deviate from the exact shares by more than 2", when, b, st, a, b1, s1),
        );
    }
    if b1 > b + 2 || s1 > st + 2 {
        out.violation(P, "never_raises_a_pool", format!("{}: a slashing check raised a pool: ({},{}) -> ({},{})", when, b, st, b1, s1));
    }
    out.distinct(&("recognise", b == 0, st == 0, decade(t - a), decade(t)));
}

impl Monitor for C06 {
    fn on_step(&mut self, c: &Ctx, _rng: &mut Rng, out: &mut Out) {
        recognition(c.post, out, &format!("after step {} ({})", c.step, c.op.kind()));
        match c.op {
            Op::Advance { .. } => {
                for e in &c.res.env_events {
                    if let Ev::Matured { delegator, amount, initial, created, .. } = e {
                        if delegator == HUB {
                            self.inflow += *amount;
                            if amount < initial {
                                self.slashed_created.insert(*created);
                            }
                        }
                    }
                }
            }
            Op::Donate { to, denom, amount } if to == HUB && denom == USEI => self.donated += *amount,
            _ => {}
        }
        if !c.res.ok() {
            return;
        }
        let (pre, post) = (c.pre, c.post);
        // an explicit check stores exactly what the query predicted
        if let Op::CheckSlashing { .. } = c.op {
            out.count("c06.explicit_checks");
            // within the statement's two base units per pool, with an exact total
            // (a batch closed by the same transaction takes its requests' value out of the pools)
            let (cb, cs) = crate::monitors::c03::closed_in_step(pre, post);
            let (sb, ss) = (post.raw_pool_b + cb, post.raw_pool_s + cs);
            if sb.abs_diff(pre.pool_b) > 2 || ss.abs_diff(pre.pool_s) > 2 || sb + ss != pre.pool_b + pre.pool_s {
                out.violation(
                    P,
                    "check_stores_prediction",
                    format!("CheckSlashing stored pools ({},{}) but the query before it reported ({},{})", post.raw_pool_b, post.raw_pool_s, pre.pool_b, pre.pool_s),
                );
            }
            if pre.raw_pool_b + pre.raw_pool_s > pre.total_delegated {
                out.count("c06.explicit_checks_recognising_slashing");
            }
        }
        // release groups (the batches whose `released` flag flips in this step, whichever message performs the
        // release): loss of stake slashed while unbonding is spread pro rata
        {
            let group: Vec<u64> = post.history.iter().filter(|h| h.released && pre.hist(h.batch_id).map(|p| !p.released).unwrap_or(false)).map(|h| h.batch_id).collect();
            if !group.is_empty() {
                let arrived = self.inflow + self.donated;
                // (u, loss) per batch and token type
                let mut parts: Vec<(u64, &str, u128, u128)> = vec![];
                let mut total_u = 0u128;
                for b in &group {
                    let h = post.hist(*b).unwrap();
                    for (name, amt, applied, wr) in [("bSei", h.bsei_amount, h.bsei_applied, h.bsei_withdraw), ("stSei", h.stsei_amount, h.stsei_applied, h.stsei_withdraw)] {
                        if amt == 0 {
                            continue;
                        }
                        let uv = mul_rate(amt, applied);
                        let after = mul_rate(amt, wr);
                        total_u += uv;
                        parts.push((*b, name, uv, uv.saturating_sub(after)));
                    }
                }
                if arrived < total_u && total_u > 0 {
                    let l = total_u - arrived;
                    out.count("c06.release_groups_with_loss");
                    if group.len() >= 2 {
                        out.count("c06.release_groups_2plus_with_loss");
                    }
                    for (b, name, uv, loss) in &parts {
                        // |loss - L*u/U| <= 4
                        // the statement gives no figure for this sentence: a couple of units per batch and token type
                        if !within(*loss, l, *uv, total_u, 4 + 2 * parts.len() as u128) {
                            out.violation(
                                P,
                                "unbonding_loss_pro_rata",
                                format!("batches {:?} released with loss {} of {}: batch {} {} (undelegated value {}) lost {}, exact share {}", group, l, total_u, b, name, uv, loss, mul_div(l, *uv, total_u)),
                            );
                        }
                    }
                    out.distinct(&("release_loss", group.len().min(6), parts.len().min(8), decade(l), decade(total_u)));
                }
            }
            // the hub re-bases its balance bookkeeping at a release and at every successful withdrawal
            if !group.is_empty() || matches!(c.op, Op::Withdraw { .. }) {
                self.inflow = 0;
                self.donated = 0;
            }
        }
    }
}
