//! C05 — peg-recovery fee is bounded and never over-collects past the 1:1 peg.

use crate::mon::*;
use crate::monitors::c03::{below_threshold, prop_cap};
use crate::ops::*;
use crate::rng::Rng;

const P: &str = "C05";

#[derive(Default)]
pub struct C05 {}

impl Monitor for C05 {
    fn on_step(&mut self, c: &Ctx, _rng: &mut Rng, out: &mut Out) {
        if !c.res.ok() {
            return;
        }
        let (pre, post) = (c.pre, c.post);
        let below = below_threshold(pre);
        let gap = pre.claims_b().saturating_sub(pre.pool_b); // what is missing for a 1:1 peg
        // (path, base, no-fee credited amount, credited amount, fee cap) in the unit the fee is taken in
        let (path, base, nofee, credited): (&str, u128, u128, u128) = match c.op {
            Op::Bond { amount, .. } => {
                let m0 = div_rate(*amount, pre.rb);
                ("bond", m0, m0, post.bsei.supply - pre.bsei.supply)
            }
            Op::Convert { tok: Tok::St, amount, .. } => {
                let m0 = div_rate(mul_rate(*amount, pre.rs), pre.rb);
                ("convert_stsei_bsei", m0, m0, post.bsei.supply - pre.bsei.supply)
            }
            Op::Unbond { tok: Tok::B, amount, user, .. } => {
                // claim credited to the cw20 sender in the batch that was open before the step
                // (or, when the hub closes an overdue batch first, in the batch open after the step: all batches summed)
                let before: u128 = pre.requests.get(user).map(|r| r.iter().map(|x| x.1).sum()).unwrap_or(0);
                let after: u128 = post.requests.get(user).map(|r| r.iter().map(|x| x.1).sum()).unwrap_or(0);
                ("unbond", *amount, *amount, after.saturating_sub(before))
            }
            Op::Convert { tok: Tok::B, amount, .. } => {
                // fee is taken on the burnt bSei; observable as the coin value moved between the pools
                let nofee_equiv = mul_rate(*amount, pre.rb);
                let (cb, _) = crate::monitors::c03::closed_in_step(pre, post);
                let equiv = pre.pool_b.saturating_sub(post.raw_pool_b + cb);
                ("convert_bsei_stsei", *amount, nofee_equiv, equiv)
            }
            _ => return,
        };
        out.count(&format!("c05.{}.ops", path));
        let cap = prop_cap(base, pre);
        // lower bound on the credited amount implied by the proportional cap
        let min_credited = match c.op {
            Op::Convert { tok: Tok::B, amount, .. } => mul_rate(*amount - cap.min(*amount), pre.rb),
            _ => nofee.saturating_sub(cap),
        };
        if credited > nofee {
            out.violation(P, "fee_not_negative", format!("{}: credited {} exceeds the no-fee amount {}", path, credited, nofee));
        }
        if !below {
            out.count(&format!("c05.{}.at_or_above_threshold", path));
            if pre.rb == pre.params.er_threshold.atomics().u128() && pre.rb < E18 {
                out.count("c05.ops_exactly_at_threshold_below_one");
            }
            if credited != nofee {
                out.violation(P, "no_fee_above_threshold", format!("{}: bSei rate {} >= threshold {} but credited {} instead of {}", path, pre.rb, pre.params.er_threshold, credited, nofee));
            }
        // one unit of the credited token of slack: "amount x peg_recovery_fee" can be read on the payment or on the
        // tokens, and the rounding order is not fixed
        } else if credited + ((cap > 0) as u128) < min_credited {
            out.violation(P, "fee_within_proportional_cap", format!("{}: credited {} is below the no-fee amount {} minus the cap (minimum {})", path, credited, nofee, min_credited));
        }
        let fee_charged = credited < nofee;
        if fee_charged {
            out.count(&format!("c05.{}.fee_charged", path));
            if credited == min_credited {
                out.count(&format!("c05.{}.proportional_cap_binding", path));
            } else {
                out.count(&format!("c05.{}.restoring_cap_binding", path));
            }
        }
        // over-restoration: starts below the peg, must not end above it by more than dust
        if pre.rb < E18 && pre.pool_b > 0 {
            out.count(&format!("c05.{}.started_below_peg", path));
            let backing = post.raw_pool_b;
            let claims = post.claims_b();
            if backing > claims + 2 {
                let excess = backing - claims;
                {
                    out.violation(P, "no_over_restoration", format!("{}: started at bSei rate {} (gap {}) and left backing {} above claims {} by {}", path, pre.rb, gap, backing, claims, excess));
                }
            }
        }
        out.distinct(&(path, below, fee_charged, credited == min_credited, decade(base), rate_class(pre.rb)));
    }
}
