//! C07 — every unbonded token is recorded in exactly one batch claim of its sender.

use crate::mon::*;
use crate::monitors::c03::{below_threshold, prop_cap};
use crate::ops::*;
use crate::rng::Rng;
use crate::setup::*;
use std::collections::BTreeMap;

const P: &str = "C07";

#[derive(Default)]
pub struct C07 {
    /// shadow claims ledger built from observed operations only: (user, batch) -> (bSei, stSei)
    ledger: BTreeMap<(String, u64), (u128, u128)>,
    /// amounts already paid per batch
    paid: BTreeMap<u64, (u128, u128)>,
}

impl C07 {
    fn compare(&self, c: &Ctx, out: &mut Out) {
        // contract's answer, flattened
        let mut actual: BTreeMap<(String, u64), (u128, u128)> = BTreeMap::new();
        for (u, reqs) in c.post.requests.iter() {
            for (b, x, y) in reqs {
                actual.insert((u.clone(), *b), (*x, *y));
            }
        }
        if actual != self.ledger {
            let mut diffs = vec![];
            for (k, v) in actual.iter() {
                if self.ledger.get(k) != Some(v) {
                    diffs.push(format!("{:?}: contract {:?}, expected {:?}", k, v, self.ledger.get(k)));
                }
            }
            for (k, v) in self.ledger.iter() {
                if !actual.contains_key(k) {
                    diffs.push(format!("{:?}: contract has nothing, expected {:?}", k, v));
                }
            }
            out.violation(P, "ledger_matches", format!("after {}: UnbondRequests differ from the claims implied by the observed unbonds/withdrawals: {}", c.op.kind(), diffs.join("; ")));
            return;
        }
        out.count("c07.ledger_comparisons");
        // the UnbondRequests query reports what is stored, for every address that has an entry (not only the known ones)
        let mut q = c.post.requests.clone();
        for v in q.values_mut() {
            v.sort();
        }
        // judged only when the raw decoders recognise the storage layout (every entry under the known prefixes
        // decodes, and the prefixes are not empty while the queries report entries)
        match &c.post.raw_history {
            Some(raw) if !(raw.is_empty() && !c.post.history.is_empty()) => {
                out.count("c07.history_checked_against_storage");
                if &c.post.history != raw {
                    out.violation(P, "queries_faithful", format!("AllHistory answers differ from the stored history: {:?} vs {:?}", c.post.history.iter().filter(|h| !raw.contains(h)).collect::<Vec<_>>(), raw.iter().filter(|h| !c.post.history.contains(h)).collect::<Vec<_>>()));
                    return;
                }
            }
            _ => out.count("c07.raw_layout_unrecognised"),
        }
        // single pages asked with arbitrary (start_from, limit): every returned entry is the stored one, ids ascend
        // without gaps, the page starts at the first stored entry at / after the requested start (an inclusive or an
        // exclusive reading of `start_from` is accepted, skipping an entry is not) and is never longer than asked
        {
            let reference: &Vec<crate::snap::Hist> = match &c.post.raw_history {
                Some(raw) if !(raw.is_empty() && !c.post.history.is_empty()) => raw,
                _ => &c.post.history,
            };
            for (s, l, got) in c.post.history_probes.iter() {
                out.count("c07.history_pages_probed");
                let mut bad: Option<String> = None;
                for (i, g) in got.iter().enumerate() {
                    match reference.iter().position(|r| r.batch_id == g.batch_id) {
                        None => bad = Some(format!("returns batch {} which is not stored", g.batch_id)),
                        Some(p) => {
                            if &reference[p] != g {
                                bad = Some(format!("batch {} differs from the stored entry", g.batch_id));
                            }
                            if i + 1 < got.len() && reference.get(p + 1).map(|r| r.batch_id) != Some(got[i + 1].batch_id) {
                                bad = Some(format!("batch {} is not followed by the next stored batch", g.batch_id));
                            }
                        }
                    }
                }
                if let Some(n) = l {
                    if got.len() > (*n).max(1) as usize {
                        bad = Some(format!("{} entries for limit {}", got.len(), n));
                    }
                }
                let from = s.unwrap_or(0);
                let next_after = reference.iter().map(|r| r.batch_id).filter(|b| *b > from || (s.is_none())).min();
                match got.first() {
                    None => {
                        if let Some(nb) = next_after {
                            bad = Some(format!("empty page although batch {} is stored after the requested start", nb));
                        }
                    }
                    Some(g) => {
                        let ok_first = Some(g.batch_id) == next_after || (s.is_some() && g.batch_id == from);
                        if !ok_first {
                            bad = Some(format!("page starts at batch {} but the first stored batch after the requested start is {:?}", g.batch_id, next_after));
                        }
                    }
                }
                if let Some(b) = bad {
                    out.violation(P, "queries_faithful", format!("AllHistory{{start_from: {:?}, limit: {:?}}} {} (returned ids {:?}, stored ids {:?})", s, l, b, got.iter().map(|g| g.batch_id).collect::<Vec<_>>(), reference.iter().map(|r| r.batch_id).collect::<Vec<_>>()));
                    return;
                }
                out.distinct(&("history_page", s.map(|x| (x as usize).min(reference.len() + 2)), *l, got.len().min(12)));
            }
        }
        match &c.post.raw_requests {
            Some(raw) if !(raw.is_empty() && !q.is_empty()) => {
                out.count("c07.requests_checked_against_storage");
                if &q != raw {
                    out.violation(P, "queries_faithful", format!("UnbondRequests answers {:?} differ from the stored wait list {:?}", q, raw));
                    return;
                }
            }
            _ => out.count("c07.raw_layout_unrecognised"),
        }
        // per batch sums
        let mut sums: BTreeMap<u64, (u128, u128)> = BTreeMap::new();
        for ((_, b), (x, y)) in actual.iter() {
            let e = sums.entry(*b).or_insert((0, 0));
            e.0 += x;
            e.1 += y;
        }
        let open = sums.get(&c.post.batch_id).cloned().unwrap_or((0, 0));
        if open != (c.post.req_b, c.post.req_s) {
            out.violation(P, "batch_totals", format!("open batch {}: users' claims sum to {:?} but CurrentBatch reports ({},{})", c.post.batch_id, open, c.post.req_b, c.post.req_s));
        }
        for h in c.post.history.iter() {
            let s = sums.get(&h.batch_id).cloned().unwrap_or((0, 0));
            let p = self.paid.get(&h.batch_id).cloned().unwrap_or((0, 0));
            if (s.0 + p.0, s.1 + p.1) != (h.bsei_amount, h.stsei_amount) {
                out.violation(
                    P,
                    "batch_totals",
                    format!("batch {}: outstanding claims {:?} + paid {:?} differ from the history totals ({},{})", h.batch_id, s, p, h.bsei_amount, h.stsei_amount),
                );
            }
            out.count("c07.closed_batch_sum_checks");
        }
        for b in sums.keys() {
            if *b != c.post.batch_id && c.post.hist(*b).is_none() {
                out.violation(P, "batch_totals", format!("claims exist for batch {} which is neither open nor in the history", b));
            }
        }
    }
}

impl Monitor for C07 {
    fn on_step(&mut self, c: &Ctx, _rng: &mut Rng, out: &mut Out) {
        let (pre, post) = (c.pre, c.post);
        if c.res.ok() {
            match c.op {
                Op::Unbond { user, tok, amount, owner } => {
                    out.count("c07.unbonds");
                    if owner.is_some() {
                        out.count("c07.unbonds_via_send_from");
                    }
                    let burnt = pre.tok(*tok).supply - post.tok(*tok).supply;
                    if burnt != *amount {
                        out.violation(P, "burns_exactly", format!("unbond of {} burnt {}", amount, burnt));
                    }
                    let holder = owner.as_ref().unwrap_or(user);
                    let hb0 = pre.tok(*tok).balances.get(holder).cloned().unwrap_or(0);
                    let hb1 = post.tok(*tok).balances.get(holder).cloned().unwrap_or(0);
                    if hb0 - hb1 != *amount {
                        out.violation(P, "burns_exactly", format!("unbond of {}: {}'s balance fell by {}", amount, holder, hb0 - hb1));
                    }
                    let get = |s: &crate::snap::Snap, u: &str| -> (u128, u128) {
                        s.requests.get(u).and_then(|r| r.iter().find(|x| x.0 == pre.batch_id).map(|x| (x.1, x.2))).unwrap_or((0, 0))
                    };
                    let (b0, s0) = get(pre, user);
                    let (b1, s1) = get(post, user);
                    let credited = match tok {
                        Tok::B => {
                            if s1 != s0 {
                                out.violation(P, "credits_sender", format!("bSei unbond changed {}'s stSei claim", user));
                            }
                            b1 - b0
                        }
                        Tok::St => {
                            if b1 != b0 {
                                out.violation(P, "credits_sender", format!("stSei unbond changed {}'s bSei claim", user));
                            }
                            s1 - s0
                        }
                    };
                    let cap = if *tok == Tok::B && below_threshold(pre) { prop_cap(*amount, pre) } else { 0 };
                    if credited > *amount || credited + cap < *amount {
                        out.violation(P, "credits_sender", format!("unbond of {} {:?} by {} credited a claim of {} (fee cap {})", amount, tok, user, credited, cap));
                    }
                    let e = self.ledger.entry((user.clone(), pre.batch_id)).or_insert((0, 0));
                    match tok {
                        Tok::B => e.0 += credited,
                        Tok::St => e.1 += credited,
                    }
                    if pre.batch_id != post.batch_id {
                        out.count("c07.unbonds_closing_a_batch");
                    }
                    let both = pre.req_b + pre.req_s > 0 && ((*tok == Tok::B && pre.req_s > 0) || (*tok == Tok::St && pre.req_b > 0));
                    if both {
                        out.count("c07.unbonds_into_mixed_batch");
                    }
                    out.distinct(&("unbond", *tok, owner.is_some(), credited < *amount, pre.batch_id != post.batch_id, decade(*amount), self.ledger.len().min(12)));
                }
                Op::Withdraw { user } => {
                    // the owner's claims in released batches disappear, nothing else
                    let keys: Vec<(String, u64)> = self.ledger.keys().filter(|k| &k.0 == user && post.hist(k.1).map(|h| h.released).unwrap_or(false)).cloned().collect();
                    for k in keys {
                        let v = self.ledger.remove(&k).unwrap();
                        let p = self.paid.entry(k.1).or_insert((0, 0));
                        p.0 += v.0;
                        p.1 += v.1;
                    }
                    out.count("c07.withdrawals");
                }
                Op::Raw { contract, msg, .. } if contract == HUB && msg.starts_with("{\"receive\"") => {
                    out.violation(P, "only_registered_tokens", format!("a Receive hook not coming from a registered token was accepted: {}", msg));
                }
                _ => {}
            }
        } else if let Op::Raw { contract, msg, .. } = c.op {
            if contract == HUB && msg.starts_with("{\"receive\"") {
                out.count("c07.forged_receive_rejected");
            }
        }
        self.compare(c, out);
    }
}
