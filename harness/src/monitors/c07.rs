//! C07 — every unbonded token is recorded in exactly one batch claim of its sender.

use crate::mon::*;
use crate::monitors::c03::{below_threshold, prop_cap};
use crate::ops::*;
use crate::rng::Rng;
use crate::setup::*;
use std::collections::BTreeMap;

const P: &str = "C07";

#[derive(Default)]
pub struct C07 {
    /// shadow claims ledger built from observed operations only: (user, batch) -> (bSei, stSei)
    ledger: BTreeMap<(String, u64), (u128, u128)>,
    /// amounts already paid per batch
    paid: BTreeMap<u64, (u128, u128)>,
}

impl C07 {
    fn compare(&self, c: &Ctx, out: &mut Out) {
        // contract's answer, flattened
        let mut actual: BTreeMap<(String, u64), (u128, u128)> = BTreeMap::new();
        for (u, reqs) in c.post.requests.iter() {
            for (b, x, y) in reqs {
                // rows worth nothing are not claims (a hub may or may not keep them)
                if (*x, *y) != (0, 0) {
                    actual.insert((u.clone(), *b), (*x, *y));
                }
            }
        }
        let ledger: BTreeMap<(String, u64), (u128, u128)> = self.ledger.iter().filter(|(_, v)| **v != (0, 0)).map(|(k, v)| (k.clone(), *v)).collect();
        if actual != ledger {
            let mut diffs = vec![];
            for (k, v) in actual.iter() {
                if ledger.get(k) != Some(v) {
                    diffs.push(format!("{:?}: contract {:?}, expected {:?}", k, v, ledger.get(k)));
                }
            }
            for (k, v) in ledger.iter() {
                if !actual.contains_key(k) {
                    diffs.push(format!("{:?}: contract has nothing, expected {:?}", k, v));
                }
            }
            out.violation(P, "ledger_matches", format!("after {}: UnbondRequests differ from the claims implied by the observed unbonds/withdrawals: {}", c.op.kind(), diffs.join("; ")));
            return;
        }
        out.count("c07.ledger_comparisons");
        // the UnbondRequests query reports what is stored, for every address that has an entry (not only the known ones)
        let mut q = c.post.requests.clone();
        for v in q.values_mut() {
            v.sort();
        }
        // judged only when the raw decoders recognise the storage layout (every entry under the known prefixes
        // decodes, and the prefixes are not empty while the queries report entries)
        match &c.post.raw_history {
            Some(raw) if !(raw.is_empty() && !c.post.history.is_empty()) => {
                out.count("c07.history_checked_against_storage");
                if &c.post.history != raw {
                    out.violation(P, "queries_faithful", format!("AllHistory answers differ from the stored history: {:?} vs {:?}", c.post.history.iter().filter(|h| !raw.contains(h)).collect::<Vec<_>>(), raw.iter().filter(|h| !c.post.history.contains(h)).collect::<Vec<_>>()));
                    return;
                }
            }
            _ => out.count("c07.raw_layout_unrecognised"),
        }
        // single pages asked with arbitrary (start_from, limit): every returned entry is the stored one, ids ascend
        // without gaps, the page starts at the first stored entry at / after the requested start (an inclusive or an
        // exclusive reading of `start_from` is accepted, skipping an entry is not) and is never longer than asked
        {
            let reference: &Vec<crate::snap::Hist> = match &c.post.raw_history {
                Some(raw) if !(raw.is_empty() && !c.post.history.is_empty()) => raw,
                _ => &c.post.history,
            };
            for (s, l, got) in c.post.history_probes.iter() {
                out.count("c07.history_pages_probed");
                let mut bad: Option<String> = None;
                // a page may list its entries oldest-first or newest-first: it is judged in ascending order of ids, and
                // the start rule is applied in the direction the page runs
                let descending = got.len() >= 2 && got[0].batch_id > got[1].batch_id;
                let mut page: Vec<&crate::snap::Hist> = got.iter().collect();
                page.sort_by_key(|g| g.batch_id);
                for (i, g) in page.iter().enumerate() {
                    match reference.iter().position(|r| r.batch_id == g.batch_id) {
                        None => bad = Some(format!("returns batch {} which is not stored", g.batch_id)),
                        Some(p) => {
                            if &&reference[p] != g {
                                bad = Some(format!("batch {} differs from the stored entry", g.batch_id));
                            }
                            if i + 1 < page.len() && reference.get(p + 1).map(|r| r.batch_id) != Some(page[i + 1].batch_id) {
                                bad = Some(format!("batch {} is not followed by the next stored batch", g.batch_id));
                            }
                        }
                    }
                }
                if let Some(n) = l {
                    if got.len() > (*n).max(1) as usize {
                        bad = Some(format!("{} entries for limit {}", got.len(), n));
                    }
                }
                let from = s.unwrap_or(0);
                let next_up = reference.iter().map(|r| r.batch_id).filter(|b| *b > from || s.is_none()).min();
                let next_down = reference.iter().map(|r| r.batch_id).filter(|b| *b < from || s.is_none()).max();
                match (page.first(), page.last()) {
                    (Some(lo), Some(hi)) => {
                        let ok_up = Some(lo.batch_id) == next_up || (s.is_some() && lo.batch_id == from);
                        let ok_down = Some(hi.batch_id) == next_down || (s.is_some() && hi.batch_id == from);
                        let ok = if descending { ok_down } else if page.len() == 1 { ok_up || ok_down } else { ok_up };
                        if !ok {
                            bad = Some(format!("page {:?} does not start at the stored batch next to the requested start", page.iter().map(|g| g.batch_id).collect::<Vec<_>>()));
                        }
                    }
                    _ => {
                        // empty: fine when, in one of the two directions, nothing is stored beyond the requested start
                        if next_up.is_some() && next_down.is_some() {
                            bad = Some(format!("empty page although batches are stored on both sides of the requested start ({:?} / {:?})", next_down, next_up));
                        }
                    }
                }
                if let Some(b) = bad {
                    out.violation(P, "queries_faithful", format!("AllHistory{{start_from: {:?}, limit: {:?}}} {} (returned ids {:?}, stored ids {:?})", s, l, b, got.iter().map(|g| g.batch_id).collect::<Vec<_>>(), reference.iter().map(|r| r.batch_id).collect::<Vec<_>>()));
                    return;
                }
                out.distinct(&("history_page", s.map(|x| (x as usize).min(reference.len() + 2)), *l, got.len().min(12)));
            }
        }
        match &c.post.raw_requests {
            Some(raw) if !(raw.is_empty() && !q.is_empty()) => {
                out.count("c07.requests_checked_against_storage");
                // markers worth nothing (a paid claim kept as a tombstone, say) are not claims
                let strip = |m: &BTreeMap<String, Vec<(u64, u128, u128)>>| -> BTreeMap<String, Vec<(u64, u128, u128)>> {
                    m.iter().map(|(k, v)| (k.clone(), v.iter().filter(|x| (x.1, x.2) != (0, 0)).cloned().collect::<Vec<_>>())).filter(|(_, v)| !v.is_empty()).collect()
                };
                let (q, raw) = (strip(&q), &strip(raw));
                if &q != raw {
                    out.violation(P, "queries_faithful", format!("UnbondRequests answers {:?} differ from the stored wait list {:?}", q, raw));
                    return;
                }
            }
            _ => out.count("c07.raw_layout_unrecognised"),
        }
        // per batch sums
        let mut sums: BTreeMap<u64, (u128, u128)> = BTreeMap::new();
        for ((_, b), (x, y)) in actual.iter() {
            let e = sums.entry(*b).or_insert((0, 0));
            e.0 += x;
            e.1 += y;
        }
        let open = sums.get(&c.post.batch_id).cloned().unwrap_or((0, 0));
        if open != (c.post.req_b, c.post.req_s) {
            out.violation(P, "batch_totals", format!("open batch {}: users' claims sum to {:?} but CurrentBatch reports ({},{})", c.post.batch_id, open, c.post.req_b, c.post.req_s));
        }
        for h in c.post.history.iter() {
            let s = sums.get(&h.batch_id).cloned().unwrap_or((0, 0));
            let p = self.paid.get(&h.batch_id).cloned().unwrap_or((0, 0));
            if (s.0 + p.0, s.1 + p.1) != (h.bsei_amount, h.stsei_amount) {
                out.violation(
                    P,
                    "batch_totals",
                    format!("batch {}: outstanding claims {:?} + paid {:?} differ from the history totals ({},{})", h.batch_id, s, p, h.bsei_amount, h.stsei_amount),
                );
            }
            out.count("c07.closed_batch_sum_checks");
        }
        for b in sums.keys() {
            if *b != c.post.batch_id && c.post.hist(*b).is_none() {
                out.violation(P, "batch_totals", format!("claims exist for batch {} which is neither open nor in the history", b));
            }
        }
    }
}

impl Monitor for C07 {
    fn on_step(&mut self, c: &Ctx, _rng: &mut Rng, out: &mut Out) {
        let (pre, post) = (c.pre, c.post);
        if c.res.ok() {
            match c.op {
                Op::Unbond { user, tok, amount, owner } => {
                    out.count("c07.unbonds");
                    if owner.is_some() {
                        out.count("c07.unbonds_via_send_from");
                    }
                    let burnt = pre.tok(*tok).supply - post.tok(*tok).supply;
                    if burnt != *amount {
                        out.violation(P, "burns_exactly", format!("unbond of {} burnt {}", amount, burnt));
                    }
                    let holder = owner.as_ref().unwrap_or(user);
                    let hb0 = pre.tok(*tok).balances.get(holder).cloned().unwrap_or(0);
                    let hb1 = post.tok(*tok).balances.get(holder).cloned().unwrap_or(0);
                    if hb0 - hb1 != *amount {
                        out.violation(P, "burns_exactly", format!("unbond of {}: {}'s balance fell by {}", amount, holder, hb0 - hb1));
                    }
                    // "a claim in the current batch": the batch that was open before the transaction or - when the hub
                    // closes an overdue batch first and files the request in the next one - the batch open after it
                    let get_in = |s: &crate::snap::Snap, u: &str, batch: u64| -> (u128, u128) {
                        s.requests.get(u).and_then(|r| r.iter().find(|x| x.0 == batch).map(|x| (x.1, x.2))).unwrap_or((0, 0))
                    };
                    let moved_on = post.batch_id != pre.batch_id && get_in(pre, user, pre.batch_id) == get_in(post, user, pre.batch_id) && get_in(post, user, post.batch_id) != (0, 0);
                    let claim_batch = if moved_on { post.batch_id } else { pre.batch_id };
                    let (b0, s0) = get_in(pre, user, claim_batch);
                    let (b1, s1) = get_in(post, user, claim_batch);
                    let credited = match tok {
                        Tok::B => {
                            if s1 != s0 {
                                out.violation(P, "credits_sender", format!("bSei unbond changed {}'s stSei claim", user));
                            }
                            b1 - b0
                        }
                        Tok::St => {
                            if b1 != b0 {
                                out.violation(P, "credits_sender", format!("stSei unbond changed {}'s bSei claim", user));
                            }
                            s1 - s0
                        }
                    };
                    let cap = if *tok == Tok::B && below_threshold(pre) { prop_cap(*amount, pre) } else { 0 };
                    if credited > *amount || credited + cap < *amount {
                        out.violation(P, "credits_sender", format!("unbond of {} {:?} by {} credited a claim of {} (fee cap {})", amount, tok, user, credited, cap));
                    }
                    // (a request the peg fee consumes entirely leaves no claim: no ledger row either)
                    if credited > 0 {
                        let e = self.ledger.entry((user.clone(), claim_batch)).or_insert((0, 0));
                        match tok {
                            Tok::B => e.0 += credited,
                            Tok::St => e.1 += credited,
                        }
                    }
                    if pre.batch_id != post.batch_id {
                        out.count("c07.unbonds_closing_a_batch");
                    }
                    let both = pre.req_b + pre.req_s > 0 && ((*tok == Tok::B && pre.req_s > 0) || (*tok == Tok::St && pre.req_b > 0));
                    if both {
                        out.count("c07.unbonds_into_mixed_batch");
                    }
                    out.distinct(&("unbond", *tok, owner.is_some(), credited < *amount, pre.batch_id != post.batch_id, decade(*amount), self.ledger.len().min(12)));
                }
                Op::Withdraw { user } => {
                    // the owner's claims in released batches disappear, nothing else
                    let keys: Vec<(String, u64)> = self.ledger.keys().filter(|k| &k.0 == user && post.hist(k.1).map(|h| h.released).unwrap_or(false)).cloned().collect();
                    for k in keys {
                        let v = self.ledger.remove(&k).unwrap();
                        let p = self.paid.entry(k.1).or_insert((0, 0));
                        p.0 += v.0;
                        p.1 += v.1;
                    }
                    out.count("c07.withdrawals");
                }
                Op::Raw { contract, msg, .. } if contract == HUB && msg.starts_with("{\"receive\"") => {
                    // "claims are created only through the two registered token contracts": a forged hook must create
                    // nothing; whether it is rejected or acknowledged and ignored is C10's sentence
                    if crate::snap::sem_digest(c.w_pre) != crate::snap::sem_digest(c.w_post) {
                        out.violation(P, "only_registered_tokens", format!("a Receive hook not coming from a registered token was accepted and changed the state: {}", msg));
                    } else {
                        out.count("c07.forged_receive_ignored");
                    }
                }
                _ => {}
            }
        } else if let Op::Raw { contract, msg, .. } = c.op {
            if contract == HUB && msg.starts_with("{\"receive\"") {
                out.count("c07.forged_receive_rejected");
            }
        }
        if let Op::Raw { contract, msg, .. } = c.op {
            if contract == HUB && msg.starts_with("{\"receive\"") {
                out.count("c07.forged_receive_attempts");
            }
        }
        self.compare(c, out);
    }
}
