//! C01 — matured unbond claims are fully funded and paid exactly once.

use crate::chain::{Ev, World};
use crate::mon::*;
use crate::ops::*;
use crate::rng::Rng;
use crate::setup::*;
use crate::snap::{self, Snap};
use std::collections::{BTreeMap, BTreeSet};

const P: &str = "C01";

#[derive(Default)]
pub struct C01 {
    /// (user, batch) pairs already paid
    paid: BTreeSet<(String, u64)>,
    /// coins that reached the hub since the last successful withdrawal: matured + donated
    inflow_matured: u128,
    inflow_donated: u128,
    /// creation times of unbonding entries that lost value to slashing while unbonding
    slashed_created: BTreeSet<u64>,
    /// matured amounts by creation time (kept for diagnostics)
    matured_by_created: BTreeMap<u64, u128>,
    steps_since_dry: u64,
    pub dry_every: u64,
    pub perm_orders: usize,
}

impl C01 {
    pub fn new() -> C01 {
        C01 { dry_every: if thorough() { 12 } else { 25 }, perm_orders: if thorough() { 4 } else { 1 }, ..Default::default() }
    }
}

/// value of one user's claims in released batches (each token type floored separately, as the
/// property states: "its recorded share at the batch's final withdraw rate")
pub fn released_value(s: &Snap, reqs: &[(u64, u128, u128)]) -> (u128, Vec<u64>) {
    let mut v = 0u128;
    let mut ids = vec![];
    for (b, ba, sa) in reqs {
        if let Some(h) = s.hist(*b) {
            if h.released {
                v += mul_rate(*ba, h.bsei_withdraw) + mul_rate(*sa, h.stsei_withdraw);
                ids.push(*b);
            }
        }
    }
    (v, ids)
}

pub fn total_released_claims(s: &Snap) -> u128 {
    s.requests.values().map(|r| released_value(s, r).0).sum()
}

impl C01 {
    fn check_solvency(&self, s: &Snap, out: &mut Out, at: &str) {
        let owed = total_released_claims(s);
        if owed > 0 {
            out.count("c01.states_with_released_unpaid_claims");
        }
        if owed > s.hub_bank {
            out.violation(
                P,
                "a_solvency",
                format!("{}: released claims worth {} exceed hub balance {} (time {})", at, owed, s.hub_bank, s.time),
            );
        }
    }

    /// everyone withdraws on a clone, in a given order; returns payouts per user and failures
    fn drain(w: &World, order: &[String]) -> (BTreeMap<String, u128>, Vec<(String, String)>, World) {
        let mut c = w.clone();
        let mut paid = BTreeMap::new();
        let mut failed = vec![];
        for u in order {
            let before = c.bal(u, USEI);
            let r = Op::Withdraw { user: u.clone() }.apply(&mut c);
            if r.ok() {
                paid.insert(u.clone(), c.bal(u, USEI) - before);
            } else {
                failed.push((u.clone(), r.tx.map(|t| t.err).unwrap_or_default()));
            }
        }
        (paid, failed, c)
    }

    fn dry_run(&self, w: &World, rng: &mut Rng, out: &mut Out) {
        // advance a clone so that every undelegated batch is mature
        let mut c = w.clone();
        let s0 = snap::take(&c);
        let unb = s0.params.unbonding_period;
        c.advance(unb + 1);
        let s1 = snap::take(&c);
        let claimants: Vec<String> = s1.requests.keys().cloned().collect();
        if claimants.is_empty() {
            return;
        }
        out.count("c01.dry_runs");
        if claimants.len() >= 3 {
            out.count("c01.dry_runs_with_3_or_more_claimants");
        }
        let mut orders: Vec<Vec<String>> = vec![claimants.clone(), claimants.iter().rev().cloned().collect()];
        for _ in 0..self.perm_orders {
            let mut o = claimants.clone();
            rng.shuffle(&mut o);
            orders.push(o);
        }
        let mut reference: Option<BTreeMap<String, u128>> = None;
        for (oi, order) in orders.iter().enumerate() {
            let (paid, failed, end) = Self::drain(&c, order);
            let s_end = snap::take(&end);
            // (b) every claimant whose released claims are worth >= 1 must have been paid;
            // judged on the final state, where everything mature has been released if anybody succeeded
            for (u, err) in failed.iter() {
                let reqs = s_end.requests.get(u).cloned().unwrap_or_default();
                let (v, _) = released_value(&s_end, &reqs);
                if v >= 1 {
                    out.violation(
                        P,
                        "b_withdraw_must_succeed",
                        format!("dry run order #{}: {}'s matured claims are worth {} but WithdrawUnbonded failed: {}", oi, u, v, err),
                    );
                    return;
                }
                let mature_unreleased = reqs.iter().any(|(b, _, _)| s_end.hist(*b).map(|h| !h.released).unwrap_or(false));
                if mature_unreleased {
                    // nobody could trigger the release, so the value of these claims is not observable
                    out.count("c01.dry_run_failures_undecidable");
                }
            }
            // solvency at the end of the drain
            let owed = total_released_claims(&s_end);
            if owed > s_end.hub_bank {
                out.violation(P, "a_solvency", format!("dry run order #{}: after draining, released claims {} exceed hub balance {}", oi, owed, s_end.hub_bank));
                return;
            }
            // (f) order independence — compare users that were paid in both runs and users paid in only one
            match &reference {
                None => reference = Some(paid),
                Some(r0) => {
                    if *r0 != paid {
                        // tolerate the only legitimate difference: a user failing in one order because it came
                        // before the first release with zero-valued claims (paid nothing in both)
                        let keys: BTreeSet<&String> = r0.keys().chain(paid.keys()).collect();
                        for k in keys {
                            let a = r0.get(k).cloned().unwrap_or(0);
                            let b = paid.get(k).cloned().unwrap_or(0);
                            if a != b {
                                out.violation(
                                    P,
                                    "f_order_independence",
                                    format!("claimant {} is paid {} in order #0 but {} in order #{}", k, a, b, oi),
                                );
                                return;
                            }
                        }
                    }
                    out.count("c01.order_pairs_compared");
                }
            }
        }
    }
}

impl Monitor for C01 {
    fn on_step(&mut self, c: &Ctx, rng: &mut Rng, out: &mut Out) {
        // ---- bookkeeping of what reached the hub
        match c.op {
            Op::Advance { .. } => {
                for e in &c.res.env_events {
                    if let Ev::Matured { delegator, amount, initial, created, .. } = e {
                        if delegator == HUB {
                            self.inflow_matured += *amount;
                            *self.matured_by_created.entry(*created).or_insert(0) += *amount;
                            if amount < initial {
                                self.slashed_created.insert(*created);
                            }
                        }
                    }
                }
            }
            Op::Donate { to, denom, amount } if to == HUB && denom == USEI => {
                self.inflow_donated += *amount;
            }
            _ => {}
        }

        // ---- (a) solvency at every quiescent point
        self.check_solvency(c.post, out, &format!("after step {} ({})", c.step, c.op.kind()));

        // ---- withdrawals
        let mut withdrew = false;
        if let Op::Withdraw { user } = c.op {
            let pre_reqs = c.pre.requests.get(user).cloned().unwrap_or_default();
            if c.res.ok() {
                out.count("c01.withdraw_ok");
                let post_reqs = c.post.requests.get(user).cloned().unwrap_or_default();
                // released set is judged in the post state (the transaction itself releases mature batches)
                let (expected, ids) = released_value(c.post, &pre_reqs);
                let sent: u128 = c
                    .res
                    .trace()
                    .unwrap()
                    .evs()
                    .filter_map(|e| match e {
                        Ev::BankSend { from, to, coins } if from == HUB && to == user => {
                            Some(coins.iter().filter(|c| c.denom == USEI).map(|c| c.amount.u128()).sum::<u128>())
                        }
                        _ => None,
                    })
                    .sum();
                if sent != expected {
                    out.violation(P, "c_exact_share", format!("{} was paid {} but its released claims are worth {} (batches {:?})", user, sent, expected, ids));
                }
                let other_out: bool = c.res.trace().unwrap().evs().any(|e| matches!(e, Ev::BankSend { from, to, .. } if from == HUB && to != user));
                if other_out {
                    out.violation(P, "c_exact_share", format!("withdrawal by {} sent coins to someone else", user));
                }
                if c.pre.hub_bank - c.post.hub_bank != sent {
                    out.violation(P, "c_exact_share", format!("hub balance fell by {} but {} was sent", c.pre.hub_bank - c.post.hub_bank, sent));
                }
                // paid claims are removed, the others are kept
                let expected_left: Vec<(u64, u128, u128)> = pre_reqs.iter().filter(|r| !ids.contains(&r.0)).cloned().collect();
                if post_reqs != expected_left {
                    out.violation(P, "c_claim_removed", format!("{}: requests after withdrawal {:?}, expected {:?}", user, post_reqs, expected_left));
                }
                for b in &ids {
                    if !self.paid.insert((user.clone(), *b)) {
                        out.violation(P, "c_paid_twice", format!("claim of {} in batch {} paid a second time", user, b));
                    }
                }
                out.distinct(&("withdraw", ids.len().min(4), decade(sent), c.pre.history.iter().filter(|h| !h.released).count().min(4)));

                withdrew = true;
            } else {
                out.count("c01.withdraw_failed");
                // (b) on the real history: claims in already released batches
                let (v, ids) = released_value(c.pre, &pre_reqs);
                if v >= 1 && !c.pre.params.paused.unwrap_or(false) {
                    out.violation(
                        P,
                        "b_withdraw_must_succeed",
                        format!("{} holds released claims worth {} (batches {:?}) but WithdrawUnbonded failed: {}", user, v, ids, c.res.tx.as_ref().unwrap().err),
                    );
                }
            }
        }

        // ---- release group of this transaction: the batches whose `released` flag flips in this step, whichever
        // message performs the release (the shipped hub releases inside WithdrawUnbonded only)
        let mut formed_group = false;
        let group: Vec<u64> = c
            .post
            .history
            .iter()
            .filter(|h| h.released && c.pre.hist(h.batch_id).map(|p| !p.released).unwrap_or(false))
            .map(|h| h.batch_id)
            .collect();
        if c.res.ok() && !group.is_empty() {
            formed_group = true;
            out.count("c01.release_groups");
            if !withdrew {
                out.count("c01.release_groups_outside_withdraw");
            }
            if group.len() >= 2 {
                out.count("c01.release_groups_2plus");
            }
            if group.len() >= 3 {
                out.count("c01.release_groups_3plus");
            }
            // claims of the group, over all users (pre-state requests: nothing of the group was paid before)
            let mut claims_total = 0u128;
            let mut n_claims = 0u64;
            for (_, reqs) in c.pre.requests.iter() {
                for (b, ba, sa) in reqs {
                    if group.contains(b) {
                        let h = c.post.hist(*b).unwrap();
                        claims_total += mul_rate(*ba, h.bsei_withdraw) + mul_rate(*sa, h.stsei_withdraw);
                        // one floor per claim and token type
                        n_claims += (*ba > 0) as u64 + (*sa > 0) as u64;
                    }
                }
            }
            let mut pairs = 0u64;
            let mut slashed = false;
            let mut mixed = false;
            let mut undelegated_total = 0u128;
            for b in &group {
                let h = c.post.hist(*b).unwrap();
                if h.bsei_amount > 0 {
                    pairs += 1;
                }
                if h.stsei_amount > 0 {
                    pairs += 1;
                }
                if h.bsei_amount > 0 && h.stsei_amount > 0 {
                    mixed = true;
                }
                undelegated_total += mul_rate(h.bsei_amount, h.bsei_applied) + mul_rate(h.stsei_amount, h.stsei_applied);
                if self.slashed_created.contains(&h.time) {
                    slashed = true;
                }
            }
            if mixed {
                out.count("c01.release_groups_mixed_tokens");
            }
            if slashed {
                out.count("c01.release_groups_with_unbonding_slashing");
            }
            if self.inflow_donated > 0 {
                out.count("c01.release_groups_with_donation");
            }
            let unpaid_before = total_released_claims(c.pre);
            if unpaid_before > 0 {
                out.count("c01.release_groups_with_older_unpaid_claims");
            }
            let arrived = self.inflow_matured + self.inflow_donated;
            // (d) never more than what arrived
            if claims_total > arrived {
                out.violation(
                    P,
                    "d_group_not_above_arrived",
                    format!(
                        "batches {:?} released together: claims worth {} but only {} arrived (matured {}, donated {}); undelegated {}",
                        group, claims_total, arrived, self.inflow_matured, self.inflow_donated, undelegated_total
                    ),
                );
            }
            // (e) dust bound without slashing / donation
            if !slashed && self.inflow_donated == 0 {
                // "a few base units of rounding dust per batch and claim"
                let allowance = 4 * pairs as u128 + 2 * n_claims as u128;
                if arrived > claims_total + allowance {
                    out.violation(
                        P,
                        "e_dust_bound",
                        format!(
                            "batches {:?}: arrived {} but claims only {} (shortfall {} > allowance {} = 4*{} pairs + 2*{} claims)",
                            group,
                            arrived,
                            claims_total,
                            arrived - claims_total,
                            allowance,
                            pairs,
                            n_claims
                        ),
                    );
                }
                out.count("c01.release_groups_dust_bound_checked");
            }
            out.distinct(&("release", group.len().min(5), slashed, self.inflow_donated > 0, unpaid_before > 0, mixed, decade(claims_total)));
        }
        if formed_group || withdrew {
            // the hub re-bases its balance bookkeeping here: what arrived so far is accounted for
            self.inflow_matured = 0;
            self.inflow_donated = 0;
        }

        // ---- periodic dry run on a clone
        self.steps_since_dry += 1;
        if self.steps_since_dry >= self.dry_every && !c.post.params.paused.unwrap_or(false) {
            self.steps_since_dry = 0;
            self.dry_run(c.w_post, rng, out);
        }
    }

    fn on_end(&mut self, w: &World, s: &Snap, _cfg: &Cfg, rng: &mut Rng, out: &mut Out) {
        if !s.params.paused.unwrap_or(false) {
            self.dry_run(w, rng, out);
        }
    }
}
