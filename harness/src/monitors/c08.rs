//! C08 — unbonding time-lock holds and the batch lifecycle only moves forward.

use crate::mon::*;
use crate::monitors::c03::undelegated_in;
use crate::ops::*;
use crate::rng::Rng;

const P: &str = "C08";

#[derive(Default)]
pub struct C08 {
    undelegations_per_batch: std::collections::BTreeMap<u64, u64>,
    /// block time of the last undelegation this monitor saw (before the first: the hub's initial timer)
    last_undelegation_seen: Option<u64>,
}

impl Monitor for C08 {
    fn on_step(&mut self, c: &Ctx, _rng: &mut Rng, out: &mut Out) {
        let (pre, post) = (c.pre, c.post);
        let unb = pre.params.unbonding_period;
        // ---- ids consecutive, current batch follows the last closed one
        for (i, h) in post.history.iter().enumerate() {
            if h.batch_id != i as u64 + 1 {
                out.violation(P, "consecutive_ids", format!("history ids are not consecutive: position {} holds batch {}", i, h.batch_id));
                break;
            }
        }
        if post.batch_id != post.history.len() as u64 + 1 {
            out.violation(P, "consecutive_ids", format!("open batch id {} after {} closed batches", post.batch_id, post.history.len()));
        }
        // ---- immutability / forward-only lifecycle
        for h0 in pre.history.iter() {
            match post.hist(h0.batch_id) {
                None => out.violation(P, "history_kept", format!("history entry {} disappeared", h0.batch_id)),
                Some(h1) => {
                    if h0.released {
                        if h0 != h1 {
                            out.violation(P, "released_immutable", format!("released batch {} changed: {:?} -> {:?}", h0.batch_id, h0, h1));
                        }
                    } else {
                        let same_core = h0.time == h1.time && h0.bsei_amount == h1.bsei_amount && h0.stsei_amount == h1.stsei_amount && h0.bsei_applied == h1.bsei_applied && h0.stsei_applied == h1.stsei_applied;
                        if !same_core {
                            out.violation(P, "unreleased_only_released", format!("unreleased batch {} changed other than by release: {:?} -> {:?}", h0.batch_id, h0, h1));
                        }
                        // the statement freezes the withdraw rates once a batch is released; what an unreleased entry
                        // shows in that field meanwhile (an estimate, say) is not fixed (counted)
                        if !h1.released && (h0.bsei_withdraw != h1.bsei_withdraw || h0.stsei_withdraw != h1.stsei_withdraw) {
                            out.count("c08.unreleased_withdraw_rates_changed");
                        }
                        if h1.released {
                            // released in this step: must be mature, and only a successful withdrawal releases
                            out.count("c08.releases");
                            // which message performs the release is not the property's subject (counted, not judged)
                            if !(matches!(c.op, Op::Withdraw { .. }) && c.res.ok()) {
                                out.count("c08.releases_outside_withdraw");
                            }
                            if post.time < h0.time + unb {
                                out.violation(P, "time_lock", format!("batch {} undelegated at {} released at {} (< {} + {})", h0.batch_id, h0.time, post.time, h0.time, unb));
                            }
                            if post.time == h0.time + unb {
                                out.count("c08.releases_exactly_at_boundary");
                            }
                        }
                    }
                }
            }
        }
        out.count("c08.snapshot_pairs");
        // ---- withdrawals: nothing paid before the period has elapsed
        if let Op::Withdraw { user } = c.op {
            let pre_reqs = pre.requests.get(user).cloned().unwrap_or_default();
            let has_unripe = pre_reqs.iter().any(|(b, _, _)| pre.hist(*b).map(|h| pre.time < h.time + unb).unwrap_or(true));
            if pre_reqs.iter().any(|(b, _, _)| pre.hist(*b).map(|h| pre.time == h.time + unb).unwrap_or(false)) {
                out.count("c08.withdraw_attempts_exactly_at_boundary");
            }
            let at_boundary_minus_1 = pre_reqs.iter().any(|(b, _, _)| pre.hist(*b).map(|h| pre.time + 1 == h.time + unb).unwrap_or(false));
            if at_boundary_minus_1 {
                out.count("c08.withdraw_attempts_one_second_early");
            }
            if c.res.ok() {
                let post_reqs = post.requests.get(user).cloned().unwrap_or_default();
                for (b, _, _) in pre_reqs.iter() {
                    if !post_reqs.iter().any(|x| x.0 == *b) {
                        // this claim was paid
                        match pre.hist(*b) {
                            None => out.violation(P, "time_lock", format!("claim in open batch {} was paid", b)),
                            Some(h) => {
                                if pre.time < h.time + unb {
                                    out.violation(P, "time_lock", format!("claim in batch {} (undelegated at {}) paid at {} before {}", b, h.time, pre.time, h.time + unb));
                                }
                                if pre.time == h.time + unb {
                                    out.count("c08.payments_exactly_at_boundary");
                                }
                            }
                        }
                    }
                }
                if has_unripe {
                    out.count("c08.withdrawals_with_unripe_claims_left");
                }
                out.distinct(&("withdraw", pre_reqs.len().min(6), has_unripe, post.history.iter().filter(|h| !h.released).count().min(5)));
            }
        }
        // ---- undelegation: at most once per batch, only after more than one epoch, for the recorded value
        if let Op::Unbond { .. } = c.op {
            let prev = self.last_undelegation_seen.unwrap_or(pre.last_unbonded_time);
            if pre.time.saturating_sub(prev) == pre.params.epoch_period + 1 {
                out.count("c08.unbonds_first_second_after_epoch");
            }
        }
        if let Some(tr) = c.res.trace() {
            let und = undelegated_in(tr);
            let new_entries: Vec<_> = post.history.iter().filter(|h| pre.hist(h.batch_id).is_none()).collect();
            if c.res.ok() {
                if und > 0 || !new_entries.is_empty() {
                    // which message closes a batch is not the property's subject (counted, not judged)
                    if !matches!(c.op, Op::Unbond { .. }) {
                        out.count("c08.undelegations_outside_unbond");
                    }
                    if new_entries.len() != 1 {
                        out.violation(P, "one_undelegation_per_batch", format!("{} undelegated but {} history entries were created", und, new_entries.len()));
                    } else {
                        let h = new_entries[0];
                        *self.undelegations_per_batch.entry(h.batch_id).or_insert(0) += 1;
                        if self.undelegations_per_batch[&h.batch_id] > 1 {
                            out.violation(P, "one_undelegation_per_batch", format!("batch {} undelegated twice", h.batch_id));
                        }
                        // a recorded time before the real one would shorten the lock; a later one only lengthens it
                        if h.batch_id != pre.batch_id || h.released || h.time < pre.time {
                            out.violation(P, "history_entry", format!("new history entry {:?} for open batch {} at time {}", h, pre.batch_id, pre.time));
                        }
                        let expected = mul_rate(h.bsei_amount, h.bsei_applied) + mul_rate(h.stsei_amount, h.stsei_applied);
                        // "equals its requests valued at the recorded rates": one rounding per token type or one for
                        // the whole batch are both readings of that (the exact floor-per-type form is C03's clause)
                        if und.abs_diff(expected) > 1 {
                            out.violation(P, "undelegated_equals_recorded_value", format!("batch {}: history records ({} @ {}, {} @ {}) = {} but {} was undelegated", h.batch_id, h.bsei_amount, h.bsei_applied, h.stsei_amount, h.stsei_applied, expected, und));
                        }
                        // time of the previous undelegation as recorded in the history (instantiation time before the first)
                        // "more than one epoch period since the previous undelegation": the first batch has no previous
                        // undelegation (the hub's initial timer stands in for the workload's aim only)
                        let first = self.last_undelegation_seen.is_none() && pre.history.is_empty();
                        let prev_undelegation = self.last_undelegation_seen.unwrap_or(pre.last_unbonded_time);
                        let passed = pre.time.saturating_sub(prev_undelegation);
                        self.last_undelegation_seen = Some(pre.time);
                        if first {
                            out.count("c08.first_undelegations");
                        }
                        if !first && passed <= pre.params.epoch_period {
                            out.violation(P, "epoch_gate", format!("batch {} undelegated {}s after the previous undelegation, epoch period {}", h.batch_id, passed, pre.params.epoch_period));
                        }
                        if passed == pre.params.epoch_period + 1 {
                            out.count("c08.undelegations_first_second_after_epoch");
                        }
                        out.count("c08.undelegations");
                        out.distinct(&("undelegate", decade(und), h.bsei_amount > 0, h.stsei_amount > 0, passed == pre.params.epoch_period + 1));
                    }
                } else if let Op::Unbond { .. } = c.op {
                    let prev_undelegation = self.last_undelegation_seen.unwrap_or(pre.last_unbonded_time);
                    let passed = pre.time.saturating_sub(prev_undelegation);
                    if passed == pre.params.epoch_period {
                        out.count("c08.unbonds_exactly_at_epoch_boundary_not_undelegating");
                    }
                    if passed > pre.params.epoch_period {
                        // C08 only bounds undelegation from below ("only after more than one epoch period"); that the
                        // first unbond after the epoch *must* close the batch is C09's clause (`undelegated_after_epoch`)
                        out.count("c08.unbonds_after_epoch_not_undelegating");
                    }
                }
            }
        }
    }
}
