//! C13 — removing a validator moves its whole stake to the remaining ones.

use crate::chain::Ev;
use crate::mon::*;
use crate::ops::*;
use crate::rng::Rng;
use crate::setup::*;
use std::collections::BTreeSet;

const P: &str = "C13";

#[derive(Default)]
pub struct C13 {
    removed_once: BTreeSet<String>,
    /// validators taken out by a successful removal and not added again since
    removed_now: BTreeSet<String>,
}

impl Monitor for C13 {
    fn on_step(&mut self, c: &Ctx, _rng: &mut Rng, out: &mut Out) {
        let (pre, post) = (c.pre, c.post);
        if let (Op::AddValidator { validator, .. }, true) = (c.op, c.res.ok()) {
            self.removed_now.remove(validator);
        }
        // bonds go to registered validators only (checked on every transaction that delegates)
        if c.res.ok() {
            if let Some(tr) = c.res.trace() {
                let reg: Vec<&String> = registered(pre, &self.removed_now);
                for e in tr.evs() {
                    if let Ev::Delegate { delegator, validator, .. } = e {
                        if delegator == HUB {
                            out.count("c13.delegations_checked");
                            if !reg.contains(&validator) {
                                out.violation(P, "bonds_only_to_registered", format!("{} delegated to unregistered validator {} (registry {:?})", c.op.kind(), validator, reg));
                            }
                        }
                    }
                }
            }
        }
        // "the remaining validators" are read through the registry's query: every validator it lists must be a stored
        // one, with the hub's real delegation (a query that lists more than is stored could vouch for its own extras).
        // The converse is not demanded: stored records the query does not list (tombstones, a shortlist) are the
        // contract's business. Judged only when the raw decoder recognises the storage layout.
        match &post.raw_registry {
            Some(raw) if !(raw.is_empty() && !post.registry.is_empty()) => {
                out.count("c13.registry_checked_against_storage");
                for (a, d) in post.registry.iter() {
                    if !raw.contains(a) {
                        out.violation(P, "registry_query_faithful", format!("GetValidatorsForDelegation lists {} but the registry stores {:?}", a, raw));
                    }
                    let real = post.delegations.get(a).cloned().unwrap_or(0);
                    if *d != real {
                        out.violation(P, "registry_query_faithful", format!("GetValidatorsForDelegation reports {} delegated to {} but the hub has {} there", d, a, real));
                    }
                }
            }
            _ => out.count("c13.raw_layout_unrecognised"),
        }
        // `manual`: the registry's public `Redelegations` message, the second half of a removal whose redelegation was
        // locked when the validator was taken out ("we'll do a redelegation manually later"); judged like the
        // redelegation of a removal
        let (sender, v, manual) = match c.op {
            Op::RemoveValidator { sender, validator } => (sender, validator, false),
            Op::Redelegations { sender, validator } => (sender, validator, true),
            _ => return,
        };
        if !manual && sender != OWNER {
            return;
        }
        let was_registered = pre.registry.iter().any(|x| &x.0 == v);
        // A removal whose inner UpdateGlobalIndex trips the dispatcher's zero-coin transfer (recorded finding of
        // C17/C19) fails as a whole, which this property does not forbid; to keep observing the other clauses the
        // same transaction is re-run on a clone with the bank dropping zero coins.
        let lenient_rerun = !c.res.ok() && c.res.tx.as_ref().map(|t| t.err.contains("zero amount")).unwrap_or(false);
        let (res_l, post_l);
        let (res, post) = if lenient_rerun {
            let mut w = c.w_pre.clone();
            w.bank_lenient = true;
            res_l = c.op.apply(&mut w);
            post_l = crate::snap::take(&w);
            out.count("c13.removals_rerun_with_lenient_bank");
            (&res_l, &post_l)
        } else {
            (c.res, post)
        };
        if manual {
            if !res.ok() {
                out.count("c13.manual_redelegations_failed");
                return;
            }
            out.count("c13.manual_redelegations_ok");
            if was_registered {
                // not something the property speaks about
                out.count("c13.manual_redelegations_of_registered_validator_accepted");
                return;
            }
        }
        if !manual && !res.ok() {
            out.count("c13.removals_failed");
            if pre.registry.len() == 1 && was_registered {
                out.count("c13.last_validator_removal_rejected");
            }
            // a failed removal leaves the registry intact (transaction atomicity; observed, not assumed)
            if pre.registry.iter().map(|x| &x.0).collect::<Vec<_>>() != post.registry.iter().map(|x| &x.0).collect::<Vec<_>>() {
                out.violation(P, "failed_removal_changes_nothing", "registry changed by a failed removal".into());
            }
            return;
        }
        if !manual {
            out.count("c13.removals_ok");
            if post.registry.iter().any(|x| &x.0 == v) {
                out.violation(P, "taken_out_of_registry", format!("{} still registered after a successful removal", v));
            }
            if post.registry.is_empty() {
                out.violation(P, "never_empty", "the registry is empty after a removal".into());
            }
        }
        let d0 = pre.delegations.get(v).cloned().unwrap_or(0);
        let allowed = c.w_pre.can_redelegate(HUB, v) >= d0 && !c.w_pre.redelegate_blocked;
        let tr = res.trace().unwrap();
        let red: Vec<(&String, &String, u128)> = tr
            .evs()
            .filter_map(|e| match e {
                Ev::Redelegate { delegator, src, dst, amount } if delegator == HUB => Some((src, dst, *amount)),
                _ => None,
            })
            .collect();
        if !manual {
            if self.removed_once.contains(v) {
                out.count("c13.removals_of_re_added_validator");
            }
            self.removed_once.insert(v.clone());
            if c.res.ok() {
                // (not for the lenient re-run of a removal that really failed)
                self.removed_now.insert(v.clone());
            }
        }
        if d0 > 0 && allowed {
            out.count(if manual { "c13.manual_redelegations_with_stake_moved" } else { "c13.removals_with_stake_redelegated" });
            if !pre.pending_rewards.is_empty() {
                out.count("c13.removals_with_pending_rewards");
            }
            if pre.history.iter().any(|h| !h.released) {
                out.count("c13.removals_with_inflight_batches");
            }
            if pre.raw_pool_b + pre.raw_pool_s > pre.total_delegated {
                out.count("c13.removals_with_unrecognised_slashing");
            }
            let d1 = post.delegations.get(v).cloned().unwrap_or(0);
            if d1 != 0 {
                out.violation(P, "nothing_stays", format!("{} of the hub's stake stays on removed validator {}", d1, v));
            }
            let total: u128 = red.iter().map(|x| x.2).sum();
            if total != d0 || red.iter().any(|x| x.0 != v) {
                out.violation(P, "redelegates_whole_stake", format!("hub had {} on {} but redelegations are {:?}", d0, v, red));
            }
            let reg: Vec<&String> = registered(post, &self.removed_now);
            for (_, dst, _) in red.iter() {
                if !reg.contains(dst) {
                    out.violation(P, "targets_registered", format!("redelegation target {} is not registered", dst));
                }
            }
            // delegated minus booked stake unchanged (books net of pending slashing; rewards re-bonded in the same
            // transaction raise both by the same amount)
            let gap0 = pre.total_delegated as i128 - (pre.pool_b + pre.pool_s) as i128;
            let gap1 = post.total_delegated as i128 - (post.pool_b + post.pool_s) as i128;
            if gap0 != gap1 {
                out.violation(P, "total_stake_unchanged", format!("delegated - booked changed {} -> {} (delegated {} -> {}, books {} -> {})", gap0, gap1, pre.total_delegated, post.total_delegated, pre.pool_b + pre.pool_s, post.pool_b + post.pool_s));
            }
            out.distinct(&(if manual { "manual" } else { "remove" }, pre.registry.len(), red.len(), decade(d0), !pre.pending_rewards.is_empty()));
        } else if d0 > 0 {
            out.count(if manual { "c13.manual_redelegations_while_locked" } else { "c13.removals_while_redelegation_locked" });
            // the statement is conditional on the chain allowing the redelegation and silent otherwise (counted)
            if !red.is_empty() {
                out.count("c13.partial_redelegations_while_locked");
            }
            out.distinct(&("remove_locked", pre.registry.len(), decade(d0)));
        } else {
            out.count(if manual { "c13.manual_redelegations_without_stake" } else { "c13.removals_without_stake" });
            out.distinct(&("remove_empty", pre.registry.len()));
        }
    }
}

/// The registered validators: those the query lists, plus - when the raw decoder recognises the registry's layout -
/// those the storage holds that no successful removal has taken out since (a query may list fewer than are stored: a
/// shortlist; the storage may hold more than are registered: tombstones of removed validators). A validator the query
/// lists without a stored record is `registry_query_faithful`'s business.
fn registered<'a>(s: &'a crate::snap::Snap, removed_now: &BTreeSet<String>) -> Vec<&'a String> {
    let mut v: Vec<&String> = s.registry.iter().map(|x| &x.0).collect();
    if let Some(raw) = &s.raw_registry {
        if !(raw.is_empty() && !s.registry.is_empty()) {
            for a in raw.iter() {
                if !removed_now.contains(a) && !v.contains(&a) {
                    v.push(a);
                }
            }
        }
    }
    v
}
