//! C12 (in situ) — every delegation / undelegation plan computed inside a real transaction is re-checked
//! against the property's clauses from the emitted staking messages and the pre-transaction delegations.

use crate::chain::Ev;
use crate::mon::*;
use crate::ops::*;
use crate::rng::Rng;
use crate::setup::*;
use std::collections::BTreeMap;

const P: &str = "C12";

#[derive(Default)]
pub struct C12InSitu {}

impl Monitor for C12InSitu {
    fn on_step(&mut self, c: &Ctx, _rng: &mut Rng, out: &mut Out) {
        if !c.res.ok() {
            return;
        }
        let tr = match c.res.trace() {
            Some(t) => t,
            None => return,
        };
        let pre = c.pre;
        match c.op {
            Op::Bond { amount, .. } | Op::BondStSei { amount, .. } => {
                // the registry hands the hub its validators with their current delegations
                let n = pre.registry.len() as u128;
                if n == 0 {
                    return;
                }
                let t: u128 = pre.registry.iter().map(|x| x.1).sum();
                let mut plan: BTreeMap<&String, u128> = BTreeMap::new();
                for e in tr.evs() {
                    if let Ev::Delegate { delegator, validator, amount } = e {
                        if delegator == HUB {
                            *plan.entry(validator).or_insert(0) += amount;
                        }
                    }
                }
                let sum: u128 = plan.values().sum();
                out.count("c12.insitu_delegation_plans");
                if sum != *amount {
                    out.violation(P, "delegation_distributes_everything", format!("in situ: bond of {} delegated {}", amount, sum));
                }
                let total = t + amount;
                let ceil_even = total / n + if total % n == 0 { 0 } else { 1 };
                for (v, d) in pre.registry.iter() {
                    let p = plan.get(v).cloned().unwrap_or(0);
                    if d * n > total && p != 0 {
                        out.violation(P, "nothing_above_even_share", format!("in situ: {} holds {} (> even share {}/{}) and receives {}", v, d, total, n, p));
                    }
                    if p > 0 && d + p > ceil_even {
                        out.violation(P, "not_lifted_above_even_share", format!("in situ: {} lifted to {} above ceil(even share) {}", v, d + p, ceil_even));
                    }
                }
                out.distinct(&("insitu_deleg", n, plan.len(), decade(*amount)));
            }
            Op::Unbond { .. } => {
                let mut plan: BTreeMap<&String, u128> = BTreeMap::new();
                for e in tr.evs() {
                    if let Ev::Undelegate { delegator, validator, amount } = e {
                        if delegator == HUB {
                            *plan.entry(validator).or_insert(0) += amount;
                        }
                    }
                }
                if plan.is_empty() {
                    return;
                }
                let amount: u128 = plan.values().sum();
                let n = pre.delegations.len() as u128;
                let t = pre.total_delegated;
                out.count("c12.insitu_undelegation_plans");
                let floor_even = (t - amount) / n.max(1);
                for (v, p) in plan.iter() {
                    let d = pre.delegations.get(*v).cloned().unwrap_or(0);
                    if *p > d {
                        out.violation(P, "undelegation_within_holdings", format!("in situ: {} undelegated from {} holding {}", p, v, d));
                    } else if d - p < floor_even {
                        out.violation(P, "not_pushed_below_even_share", format!("in situ: {} pushed to {} below floor(even share) {}", v, d - p, floor_even));
                    }
                }
                out.distinct(&("insitu_undeleg", n, plan.len(), decade(amount)));
            }
            _ => {}
        }
    }
}
