//! C04 — no user operation dilutes holders: a rate falls only through slashing.

use crate::mon::*;
use crate::ops::*;
use crate::rng::Rng;
use crate::snap::Snap;

const P: &str = "C04";

#[derive(Default)]
pub struct C04 {}

fn bonded(s: &Snap) -> bool {
    !s.delegations.is_empty() && s.pool_b + s.pool_s > 0
}

impl Monitor for C04 {
    fn on_step(&mut self, c: &Ctx, _rng: &mut Rng, out: &mut Out) {
        if matches!(c.op, Op::Slash { .. }) {
            out.count("c04.slash_steps_skipped");
            return;
        }
        let (pre, post) = (c.pre, c.post);
        // the State query only reports live rates while stake is bonded
        if !bonded(pre) || !bonded(post) {
            return;
        }
        let ok = c.res.ok();
        for (name, r0, r1, claims0, claims1, pool0, pool1) in [
            ("bSei", pre.rb, post.rb, pre.claims_b(), post.claims_b(), pre.pool_b, post.pool_b),
            ("stSei", pre.rs, post.rs, pre.claims_s(), post.claims_s(), pre.pool_s, post.pool_s),
        ] {
            if claims0 == 0 || claims1 == 0 {
                // admitted exception: definitional reset to 1 when nothing is outstanding
                continue;
            }
            if pool0 == 0 || pool1 == 0 {
                // a pool wiped out by slashing while its token circulates is outside the envelope (DESIGN 4.3)
                out.count("c04.skipped_empty_pool_with_supply");
                continue;
            }
            out.count("c04.rate_comparisons");
            if ok && !c.op.is_env() {
                out.count(&format!("c04.compared_after_{}", c.op.kind()));
            }
            if r1 < r0 {
                out.violation(
                    P,
                    "rate_never_falls",
                    format!(
                        "{} lowered the {} rate {} -> {} (pool {} -> {}, supply+requests {} -> {})",
                        c.op.kind(), name, r0, r1, pool0, pool1, claims0, claims1
                    ),
                );
            }
            if ok {
                out.distinct(&(c.op.kind(), name, rate_class(r0), r1 > r0, decade(claims0)));
            }
        }
        // value of every holder whose balance did not change in this step
        for (tok, r0, r1) in [(Tok::B, pre.rb, post.rb), (Tok::St, pre.rs, post.rs)] {
            for (a, b0) in pre.tok(tok).balances.iter() {
                if *b0 == 0 {
                    continue;
                }
                let b1 = post.tok(tok).balances.get(a).cloned().unwrap_or(0);
                if b1 != *b0 {
                    continue;
                }
                let (pool0, pool1) = if tok == Tok::B { (pre.pool_b, post.pool_b) } else { (pre.pool_s, post.pool_s) };
                if pool0 == 0 || pool1 == 0 {
                    continue;
                }
                out.count("c04.passive_holder_value_checks");
                if mul_rate(b1, r1) < mul_rate(*b0, r0) {
                    out.violation(P, "passive_value", format!("{}: value of {}'s {} tokens fell {} -> {}", c.op.kind(), a, b0, mul_rate(*b0, r0), mul_rate(b1, r1)));
                }
            }
        }
        // re-bonding rewards raises the stSei rate and mints nothing
        if let Op::UpdateGlobalIndex { .. } = c.op {
            if ok {
                out.count("c04.index_updates");
                if post.stsei.supply != pre.stsei.supply {
                    out.violation(P, "rebond_mints_nothing", format!("UpdateGlobalIndex changed the stSei supply {} -> {}", pre.stsei.supply, post.stsei.supply));
                }
                // what was re-bonded in this transaction must end up in the stSei pool (and so raise its rate)
                let rebond: u128 = c
                    .res
                    .trace()
                    .map(|t| {
                        t.execs
                            .iter()
                            .filter(|e| e.callee == crate::setup::HUB && e.msg.starts_with("{\"bond_rewards\""))
                            .map(|e| e.funds.iter().filter(|f| f.denom == crate::setup::USEI).map(|f| f.amount.u128()).sum::<u128>())
                            .sum()
                    })
                    .unwrap_or(0);
                if rebond > 0 {
                    out.count("c04.index_updates_rebonding");
                    // "raises the stSei rate": the re-bonded coins must end up backing stSei, i.e. the pool grows (by how
                    // much exactly is C19's clause) and the rate does not fall (judged above)
                    // (a batch closed in the same transaction takes its stSei requests' value out of the pool)
                    let (_, cs) = crate::monitors::c03::closed_in_step(pre, post);
                    if post.pool_s + cs <= pre.pool_s {
                        out.violation(P, "rebond_raises_stsei_rate", format!("{} usei were re-bonded but the stSei pool went {} -> {} (bSei pool {} -> {})", rebond, pre.pool_s, post.pool_s, pre.pool_b, post.pool_b));
                    }
                }
            }
        }
    }
}
