//! Workload generators for full-world histories: seeded, swarm-configured, boundary-biased,
//! state-aware (they look at the last snapshot so that most operations are admissible, and
//! deliberately emit inadmissible ones too).

use crate::ops::*;
use crate::rng::Rng;
use crate::setup::*;
use crate::snap::Snap;

#[derive(Clone, Debug)]
pub struct Profile {
    pub name: &'static str,
    pub steps: (u64, u64),
    pub w_bond: u32,
    pub w_bond_st: u32,
    pub w_unbond: u32,
    pub w_convert: u32,
    pub w_withdraw: u32,
    pub w_transfer: u32,
    pub w_allowance: u32,
    pub w_burn_from: u32,
    pub w_claim: u32,
    pub w_ugi: u32,
    pub w_check: u32,
    pub w_advance: u32,
    pub w_slash: u32,
    pub w_accrue: u32,
    pub w_donate: u32,
    pub w_registry: u32,
    pub w_invalid: u32,
    pub w_params: u32,
    pub w_faults: u32,
    /// chance (per mille) that an amount is dust (1..3)
    pub dust_permille: u64,
    /// allow pause / unpause cycles
    pub pauses: bool,
    /// slash unbonding entries too
    pub slash_unbonding: bool,
}

impl Profile {
    pub fn economy(name: &'static str) -> Profile {
        Profile {
            name,
            steps: (60, 220),
            w_bond: 10,
            w_bond_st: 10,
            w_unbond: 18,
            w_convert: 6,
            w_withdraw: 10,
            w_transfer: 4,
            w_allowance: 3,
            w_burn_from: 1,
            w_claim: 2,
            w_ugi: 5,
            w_check: 2,
            w_advance: 16,
            w_slash: 4,
            w_accrue: 5,
            w_donate: 2,
            w_registry: 2,
            w_invalid: 2,
            w_params: 1,
            w_faults: 0,
            dust_permille: 80,
            pauses: false,
            slash_unbonding: true,
        }
    }
}

#[derive(Clone, Debug, Default)]
pub struct GenState {
    pub step: u64,
    pub registered: Vec<String>,
    pub paused: bool,
    /// allowances the generator has asked for so far (token, owner, spender)
    pub allowances: Vec<(Tok, String, String)>,
    /// scripted operations to emit next (state-targeted steering), front first
    pub script: std::collections::VecDeque<Op>,
    pub prefix_done: bool,
}

fn users(cfg: &Cfg) -> Vec<String> {
    USERS[..cfg.n_users].iter().map(|s| s.to_string()).collect()
}

fn amount_upto(r: &mut Rng, p: &Profile, max: u128) -> u128 {
    if max == 0 {
        return 1;
    }
    if r.chance(p.dust_permille, 1000) {
        return r.range128(1, 3).min(max);
    }
    r.amount(max)
}

/// Pick a user holding some of token `t`, else any user.
fn holder_of(r: &mut Rng, s: &Snap, cfg: &Cfg, t: Tok) -> (String, u128) {
    let us = users(cfg);
    let hs: Vec<(String, u128)> = us
        .iter()
        .map(|u| (u.clone(), *s.tok(t).balances.get(u).unwrap_or(&0)))
        .filter(|x| x.1 > 0)
        .collect();
    if hs.is_empty() || r.chance(1, 40) {
        let u = r.pick(&us).clone();
        let b = *s.tok(t).balances.get(&u).unwrap_or(&0);
        (u, b)
    } else {
        r.pick(&hs).clone()
    }
}

/// Largest payment that keeps the envelope of DESIGN.md 4.1 (total delegation and token supply <= 1e18).
pub fn bond_room(s: &Snap, tok: Tok) -> u128 {
    let cap: u128 = E18;
    let room_deleg = cap.saturating_sub(s.total_delegated + s.pending_rewards.get(USEI).cloned().unwrap_or(0) + 1_000_000);
    let (supply, rate) = match tok {
        Tok::B => (s.claims_b(), s.rb),
        Tok::St => (s.claims_s(), s.rs),
    };
    let room_supply = crate::mon::mul_rate(cap.saturating_sub(supply + 1_000_000), rate.min(E18));
    room_deleg.min(room_supply)
}

/// Largest conversion (in source tokens) that keeps the destination token's supply within the envelope.
pub fn convert_room(s: &Snap, src: Tok) -> u128 {
    let (r_src, r_dst, claims_dst) = match src {
        Tok::B => (s.rb, s.rs, s.claims_s()),
        Tok::St => (s.rs, s.rb, s.claims_b()),
    };
    let room_tokens = E18.saturating_sub(claims_dst + 1_000_000);
    let value = crate::mon::mul_rate(room_tokens, r_dst);
    if r_src == 0 {
        return 0;
    }
    // saturating: at extreme rate ratios the quotient does not fit 128 bits
    use cosmwasm_std::Uint256;
    let q = Uint256::from(value) * Uint256::from(E18) / Uint256::from(r_src);
    if q > Uint256::from(E18) {
        E18
    } else {
        crate::mon::to128(q)
    }
}

/// Largest amount of `denom` whose value stays at or below `cap` in both reward coins at the oracle price.
pub fn value_cap(cfg: &Cfg, denom: &str, cap: u128) -> u128 {
    let p = cfg.price.atomics().u128(); // kusd per usei
    let v = match denom {
        USEI => cap.min(crate::mon::div_rate(cap, p.max(1))),
        KUSD => cap.min(crate::mon::mul_rate(cap, p)),
        _ => {
            // uatom: 7.5 kusd each
            let k = cap.min(crate::mon::mul_rate(cap, p));
            crate::mon::div_rate(k, 7_500_000_000_000_000_000u128)
        }
    };
    v.max(1)
}

pub fn clock_move(r: &mut Rng, s: &Snap) -> u64 {
    let epoch = s.params.epoch_period;
    let unb = s.params.unbonding_period;
    let since = s.time.saturating_sub(s.last_unbonded_time);
    // next maturity among unreleased batches
    let next_mat: Option<u64> = s
        .history
        .iter()
        .filter(|h| !h.released && h.time + unb > s.time)
        .map(|h| h.time + unb - s.time)
        .min();
    match r.below(14) {
        0 => 0,
        1 => 1,
        2 => epoch,
        3 => epoch + 1,
        4 => (epoch + 1).saturating_sub(since).max(1),
        5 => epoch.saturating_sub(since),
        6 => next_mat.unwrap_or(unb),
        7 => next_mat.map(|x| x.saturating_sub(1)).unwrap_or(1),
        8 => next_mat.map(|x| x + 1).unwrap_or(unb + 1),
        9 => unb + epoch * r.range(1, 4),
        10 => epoch * r.range(2, 6) + 1,
        11 => r.range(1, epoch.max(2)),
        12 => unb,
        _ => r.range(1, (unb + epoch).max(2)),
    }
}

pub fn next_op(r: &mut Rng, s: &Snap, cfg: &Cfg, p: &Profile, g: &mut GenState) -> Op {
    g.step += 1;
    let us = users(cfg);
    let cap: u128 = E18;
    // state-aware boosts
    let mature_unreleased = s.history.iter().any(|h| !h.released && h.time + s.params.unbonding_period <= s.time);
    let claimable = s.requests.values().any(|v| v.iter().any(|(b, _, _)| s.hist(*b).map(|h| h.released || h.time + s.params.unbonding_period <= s.time).unwrap_or(false)));
    let epoch_passed = s.time.saturating_sub(s.last_unbonded_time) > s.params.epoch_period;
    let open_requests = s.req_b + s.req_s > 0;
    let mut w = [
        p.w_bond,
        p.w_bond_st,
        p.w_unbond + if epoch_passed && open_requests { p.w_unbond } else { 0 },
        p.w_convert,
        p.w_withdraw * if claimable || mature_unreleased { 3 } else { 1 },
        p.w_transfer,
        p.w_allowance,
        p.w_burn_from,
        p.w_claim,
        p.w_ugi,
        p.w_check,
        p.w_advance,
        p.w_slash,
        p.w_accrue,
        p.w_donate,
        p.w_registry,
        p.w_invalid,
        p.w_params,
        p.w_faults,
    ];
    if s.bsei.supply + s.stsei.supply == 0 {
        // nothing bonded yet: bond first
        w[0] += 40;
        w[1] += 40;
    }
    let k = r.pick_weighted(&w);
    match k {
        0 | 1 => {
            let user = r.pick(&us).clone();
            let bal = s.bal(&user, USEI);
            let max = bond_room(s, if k == 0 { Tok::B } else { Tok::St }).min(bal);
            if max == 0 {
                return Op::Advance { dt: 1 };
            }
            let amount = amount_upto(r, p, max);
            if k == 0 {
                Op::Bond { user, amount }
            } else {
                Op::BondStSei { user, amount }
            }
        }
        2 | 3 => {
            let tok = if r.chance(1, 2) { Tok::B } else { Tok::St };
            let (user, bal) = holder_of(r, s, cfg, tok);
            if bal == 0 {
                // nothing to unbond: try anyway sometimes, else bond
                if r.chance(1, 6) {
                    return Op::Unbond { user, tok, amount: 1, owner: None };
                }
                let b = s.bal(&user, USEI).min(bond_room(s, tok));
                if b == 0 {
                    return Op::Advance { dt: 1 };
                }
                let amount = amount_upto(r, p, b);
                return if tok == Tok::B { Op::Bond { user, amount } } else { Op::BondStSei { user, amount } };
            }
            let mut amount = amount_upto(r, p, bal);
            if r.chance(1, 50) {
                amount = bal + 1; // inadmissible
            }
            if k == 2 {
                Op::Unbond { user, tok, amount, owner: None }
            } else {
                // envelope 4.1: the destination token's supply must stay within 1e18; at extreme rate ratios even one
                // source unit can mint more than the room that is left
                let room = convert_room(s, tok);
                if room == 0 {
                    return Op::Advance { dt: 1 };
                }
                let amount = amount.min(room);
                Op::Convert { user, tok, amount, owner: None }
            }
        }
        4 => {
            // prefer users with requests
            let with: Vec<String> = s.requests.keys().filter(|u| us.contains(u)).cloned().collect();
            let user = if !with.is_empty() && !r.chance(1, 8) { r.pick(&with).clone() } else { r.pick(&us).clone() };
            Op::Withdraw { user }
        }
        5 => {
            let tok = if r.chance(1, 2) { Tok::B } else { Tok::St };
            let (from, bal) = holder_of(r, s, cfg, tok);
            let to = if r.chance(1, 10) { from.clone() } else { r.pick(&us).clone() };
            if r.chance(1, 6) && bal > 0 {
                return Op::SendDummy { tok, from, amount: amount_upto(r, p, bal) };
            }
            Op::Transfer { tok, from, to, amount: amount_upto(r, p, bal.max(1)) }
        }
        6 => {
            let mut tok = if r.chance(1, 2) { Tok::B } else { Tok::St };
            let (mut owner, mut bal) = holder_of(r, s, cfg, tok);
            let mut spender = r.pick(&us).clone();
            let expires = match r.below(6) {
                0 => Exp::Never,
                1 => Exp::AtHeight(s.height + r.range(0, 5)),
                2 => Exp::AtTime(s.time + r.range(0, 200)),
                _ => Exp::None,
            };
            let k2 = r.below(6);
            if k2 <= 2 && !g.allowances.is_empty() && !r.chance(1, 6) {
                // spend / shrink an allowance that was actually requested earlier
                let a = r.pick(&g.allowances).clone();
                tok = a.0;
                owner = a.1;
                spender = a.2;
                bal = *s.tok(tok).balances.get(&owner).unwrap_or(&0);
            }
            match k2 {
                0 => Op::DecreaseAllowance { tok, owner, spender, amount: amount_upto(r, p, bal.max(1)), expires },
                1 | 2 => {
                    // spend through an allowance: unbond / convert / transfer on behalf
                    let amount = amount_upto(r, p, bal.max(1));
                    match r.below(4) {
                        0 => Op::Unbond { user: spender, tok, amount, owner: Some(owner) },
                        1 if convert_room(s, tok) > 0 => Op::Convert { user: spender, tok, amount: amount.min(convert_room(s, tok)), owner: Some(owner) },
                        1 => Op::Advance { dt: 1 },
                        2 => Op::BurnFrom { tok, spender, owner, amount: amount_upto(r, p, (bal / 4).max(1)) },
                        _ => {
                            let to = r.pick(&us).clone();
                            Op::TransferFrom { tok, spender, owner, to, amount }
                        }
                    }
                }
                _ => {
                    if g.allowances.len() < 24 {
                        g.allowances.push((tok, owner.clone(), spender.clone()));
                    }
                    Op::IncreaseAllowance { tok, owner, spender, amount: amount_upto(r, p, bal.max(1)), expires }
                }
            }
        }
        7 => {
            let tok = if r.chance(1, 2) { Tok::B } else { Tok::St };
            if !g.allowances.is_empty() && !r.chance(1, 5) {
                let a = r.pick(&g.allowances).clone();
                let bal = *s.tok(a.0).balances.get(&a.1).unwrap_or(&0);
                return Op::BurnFrom { tok: a.0, spender: a.2, owner: a.1, amount: amount_upto(r, p, (bal / 4).max(1)) };
            }
            let (owner, bal) = holder_of(r, s, cfg, tok);
            let spender = r.pick(&us).clone();
            Op::BurnFrom { tok, spender, owner, amount: amount_upto(r, p, (bal / 4).max(1)) }
        }
        8 => {
            let user = r.pick(&us).clone();
            let recipient = if r.chance(1, 4) { Some(r.pick(&us).clone()) } else { None };
            Op::ClaimRewards { user, recipient }
        }
        9 => Op::UpdateGlobalIndex { sender: UPDATER.into() },
        10 => Op::CheckSlashing { user: r.pick(&us).clone() },
        11 => Op::Advance { dt: clock_move(r, s) },
        12 => {
            let vs: Vec<&String> = s.delegations.keys().collect();
            if vs.is_empty() {
                return Op::Advance { dt: 1 };
            }
            let v = (*r.pick(&vs)).clone();
            let (num, den) = match r.below(8) {
                0 => (1, 2),
                1 => (99, 100),
                2 => (1, 10u128.pow(r.range(1, 12) as u32)),
                3 => (1, 3),
                4 => (1, 100),
                5 => (5, 100),
                _ => {
                    let den = 1_000_000u128;
                    (r.range128(1, 990_000), den)
                }
            };
            // keep the hub's total delegation positive (DESIGN 4.3)
            let dv = *s.delegations.get(&v).unwrap_or(&0);
            let keep = crate::chain::mul_div_floor(dv, den - num, den);
            if s.total_delegated - dv + keep == 0 {
                return Op::Advance { dt: 1 };
            }
            Op::Slash { validator: v, num, den, unbonding: p.slash_unbonding && r.chance(1, 2) }
        }
        13 => {
            let vs: Vec<&String> = s.delegations.keys().collect();
            if vs.is_empty() {
                return Op::Advance { dt: 1 };
            }
            let v = (*r.pick(&vs)).clone();
            let denom = match r.below(6) {
                0 | 1 => KUSD,
                2 if cfg.extra_denom => UATOM,
                _ => USEI,
            };
            let room = cap.saturating_sub(s.total_delegated + s.pending_rewards.get(USEI).cloned().unwrap_or(0) + 1_000_000);
            // keep the value of one accrual at or below 1e15 in BOTH reward coins (envelope 4.1: no single amount
            // above 1e18 after a swap at the oracle price in either direction, cumulative index below 1e20)
            let max = (E18 / 1000).min(room.max(1)).min(value_cap(cfg, denom, E18 / 1000));
            Op::Accrue { validator: v, denom: denom.into(), amount: amount_upto(r, p, max) }
        }
        14 => {
            let (to, denom) = match r.below(5) {
                0 | 1 => (HUB, USEI),
                2 => (DISPATCHER, USEI),
                3 => (DISPATCHER, KUSD),
                _ => (REWARD, KUSD),
            };
            let max = if to == HUB { E18 / 1_000_000 } else { value_cap(cfg, denom, E18 / 1_000_000) };
            Op::Donate { to: to.into(), denom: denom.into(), amount: amount_upto(r, p, max) }
        }
        15 => {
            let reg: Vec<String> = s.registry.iter().map(|x| x.0.clone()).collect();
            match r.below(6) {
                0 | 1 => {
                    let cands: Vec<&&str> = VALIDATORS.iter().filter(|v| !reg.contains(&v.to_string())).collect();
                    if cands.is_empty() {
                        return Op::SetRedelegateBlocked { blocked: false };
                    }
                    Op::AddValidator { sender: OWNER.into(), validator: r.pick(&cands).to_string() }
                }
                2 | 3 | 4 => {
                    if reg.is_empty() {
                        return Op::Advance { dt: 1 };
                    }
                    Op::RemoveValidator { sender: OWNER.into(), validator: r.pick(&reg).clone() }
                }
                _ => {
                    // stake left on a validator that is no longer registered (removed while its redelegation was
                    // locked): anybody may complete the removal through the registry's `Redelegations` message
                    let stranded: Vec<String> = s.delegations.iter().filter(|(v, d)| **d > 0 && !reg.contains(*v)).map(|(v, _)| v.clone()).collect();
                    if !stranded.is_empty() && r.chance(2, 3) {
                        let sender = if r.chance(1, 2) { OWNER.to_string() } else { r.pick(&us).clone() };
                        return Op::Redelegations { sender, validator: r.pick(&stranded).clone() };
                    }
                    Op::SetRedelegateBlocked { blocked: r.chance(1, 2) }
                }
            }
        }
        16 => invalid_op(r, s, cfg),
        17 => {
            if p.pauses && r.chance(1, 2) {
                g.paused = !g.paused;
                return Op::UpdateParams { sender: OWNER.into(), epoch: None, fee: None, threshold: None, paused: Some(g.paused) };
            }
            let fees = ["0", "0.001", "0.05", "0.5", "1"];
            let ths = ["0", "0.9", "1"];
            match r.below(3) {
                0 => Op::UpdateParams { sender: OWNER.into(), epoch: Some(*r.pick(&[1u64, 5, 30, 100])), fee: None, threshold: None, paused: None },
                1 => Op::UpdateParams { sender: OWNER.into(), epoch: None, fee: Some(r.pick(&fees).to_string()), threshold: None, paused: None },
                _ => Op::UpdateParams { sender: OWNER.into(), epoch: None, fee: None, threshold: Some(r.pick(&ths).to_string()), paused: None },
            }
        }
        _ => Op::SetFaults { swap: r.below(6) as u8, oracle: r.below(6) as u8 },
    }
}

pub fn invalid_op(r: &mut Rng, _s: &Snap, cfg: &Cfg) -> Op {
    use basset::hub as h;
    let us = users(cfg);
    let user = r.pick(&us).clone();
    match r.below(9) {
        0 => raw(
            &user,
            HUB,
            &h::ExecuteMsg::Receive(cw20::Cw20ReceiveMsg {
                sender: user.clone(),
                amount: u(r.range128(1, 1_000_000)),
                msg: hook(&h::Cw20HookMsg::Unbond {}),
            }),
        ),
        1 => Op::Mint { tok: if r.chance(1, 2) { Tok::B } else { Tok::St }, sender: user.clone(), to: user, amount: r.range128(1, 1_000_000) },
        2 => Op::Burn { tok: if r.chance(1, 2) { Tok::B } else { Tok::St }, user, amount: 1 },
        3 => Op::Raw { sender: user, contract: HUB.into(), msg: "{\"bond\":{}}".into(), funds: vec![] },
        4 => Op::Raw { sender: user, contract: HUB.into(), msg: "{\"bond\":{}}".into(), funds: vec![(5, KUSD.into())] },
        5 => Op::Raw { sender: user, contract: HUB.into(), msg: "{\"bond_rewards\":{}}".into(), funds: vec![(5, USEI.into())] },
        6 => Op::UpdateGlobalIndex { sender: user },
        7 => raw(&user, DISPATCHER, &basset_sei_rewards_dispatcher::msg::ExecuteMsg::DispatchRewards {}),
        _ => raw(&user, REWARD, &basset::reward::ExecuteMsg::IncreaseBalance { address: user.clone(), amount: u(1000) }),
    }
}
