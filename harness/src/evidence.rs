//! Evidence and replay files, known-findings list.

use crate::driver::RunSummary;
use serde_json::{json, Value};
use std::collections::BTreeMap;

pub fn root() -> std::path::PathBuf {
    std::env::var("KRPMON_ROOT").map(|s| s.into()).unwrap_or_else(|_| std::path::PathBuf::from("."))
}

pub struct Known {
    /// property -> signature -> description
    pub known: BTreeMap<String, BTreeMap<String, String>>,
}

pub fn load_known() -> Known {
    let mut k = Known { known: BTreeMap::new() };
    let p = root().join("known_findings.json");
    if let Ok(s) = std::fs::read_to_string(&p) {
        if let Ok(v) = serde_json::from_str::<Value>(&s) {
            if let Some(arr) = v.get("known").and_then(|x| x.as_array()) {
                for e in arr {
                    let prop = e.get("property").and_then(|x| x.as_str()).unwrap_or("").to_string();
                    let sig = e.get("signature").and_then(|x| x.as_str()).unwrap_or("").to_string();
                    let what = e.get("what").and_then(|x| x.as_str()).unwrap_or("").to_string();
                    k.known.entry(prop).or_default().insert(sig, what);
                }
            }
        }
    }
    k
}

#[allow(clippy::too_many_arguments)]
pub fn write_evidence(
    id: &str,
    tier: &str,
    seed: u64,
    level: &str,
    sum: &RunSummary,
    rule: &str,
    required: &[(&str, u64)],
    assumptions: &[String],
    wall_s: f64,
    violations: i64,
    known_hits: &BTreeMap<String, u64>,
    verdict: &str,
    extra: Value,
) {
    let counters: BTreeMap<String, u64> = sum.out.counters.clone();
    let req: Vec<Value> = required
        .iter()
        .map(|(k, m)| json!({"counter": k, "minimum": m, "observed": counters.get(*k).cloned().unwrap_or(0)}))
        .collect();
    let ops: BTreeMap<String, Value> = sum.op_kinds.iter().map(|(k, v)| (k.clone(), json!({"attempted": v.0, "succeeded": v.1}))).collect();
    let ev = json!({
        "property_id": id,
        "tier": tier,
        "seed": seed,
        "level": level,
        "coverage": {
            "evaluations": sum.steps.max(sum.histories),
            "distinct_nontrivial": sum.out.distinct.len(),
            "rule": rule,
            "samples": sum.samples,
            "histories": sum.histories,
            "steps": sum.steps,
            "successful_steps": sum.ok_steps,
            "operations": ops,
            "antecedent_counters": counters,
            "required_antecedents": req,
            "known_finding_hits": known_hits,
            "verdict": verdict,
            "notes": sum.out.notes.iter().take(20).collect::<Vec<_>>(),
            "extra": extra,
        },
        "assumptions": assumptions,
        "wall_s": wall_s,
        "violations": violations,
    });
    let dir = root().join("evidence");
    let _ = std::fs::create_dir_all(&dir);
    let p = dir.join(format!("{}.json", id));
    let tmp = dir.join(format!("{}.json.tmp", id));
    std::fs::write(&tmp, serde_json::to_string_pretty(&ev).unwrap()).expect("write evidence");
    std::fs::rename(&tmp, &p).expect("rename evidence");
}

pub fn write_replay(id: &str, tier: &str, seed: u64, index: u64, cfg: &str, clause: &str, msg: &str, log: &[Value]) -> String {
    let dir = root().join("replays");
    let _ = std::fs::create_dir_all(&dir);
    let name = format!("{}_{}_seed{}_h{}.json", id, tier, seed, index);
    let p = dir.join(&name);
    let v = json!({
        "property": id, "tier": tier, "seed": seed, "history_index": index, "cfg": cfg,
        "violated_clause": clause, "message": msg,
        "replay_cmd": format!("./check {} {} --replay replays/{}", id, tier, name),
        "ops": log,
    });
    std::fs::write(&p, serde_json::to_string_pretty(&v).unwrap()).expect("write replay");
    format!("replays/{}", name)
}
