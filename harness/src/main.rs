mod chain;
mod dispworld;
mod driver;
mod evidence;
mod gen;
mod matrix;
mod mon;
mod monitors;
mod ops;
mod props;
mod props_custom;
mod rewardworld;
mod rng;
mod setup;
mod snap;
mod tokenworld;

fn main() {
    chain::install_panic_hook();
    let args: Vec<String> = std::env::args().collect();
    let code = props::run_cli(&args[1..]);
    std::process::exit(code);
}
