mod chain;
mod dispworld;
mod driver;
mod evidence;
mod gen;
mod matrix;
mod mirilane;
mod mon;
mod monitors;
mod ops;
mod props;
mod props_custom;
mod rewardworld;
mod rng;
mod setup;
mod snap;
mod tokenworld;

fn main() {
    chain::install_panic_hook();
    let args: Vec<String> = std::env::args().collect();
    if args.len() >= 2 && args[1] == "miri" {
        let seed = args.get(2).and_then(|x| x.parse().ok()).unwrap_or(1);
        std::process::exit(mirilane::run(seed));
    }
    let code = props::run_cli(&args[1..]);
    std::process::exit(code);
}
