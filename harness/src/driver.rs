//! History drivers: run one seeded history with a set of monitors; shard histories over threads.

use crate::chain::World;
use crate::gen::{self, GenState, Profile};
use crate::mon::*;
use crate::ops::*;
use crate::rng::Rng;
use crate::setup::*;
use crate::snap::{self, Snap};
use serde_json::{json, Value};
use std::sync::atomic::{AtomicBool, AtomicU64, Ordering};
use std::sync::Mutex;

pub struct HistoryReport {
    pub index: u64,
    pub out: Out,
    pub steps: u64,
    pub ok_steps: u64,
    pub cfg: String,
    pub log: Vec<Value>,
    pub op_kinds: std::collections::BTreeMap<String, (u64, u64)>,
}

/// Hook that can steer or replace the generated operation (state-targeted moves).
pub type Steer = fn(&mut Rng, &Snap, &Cfg, &mut GenState, &World) -> Option<Op>;

pub struct FullWorldSpec {
    pub profile: Profile,
    pub tune_cfg: fn(&mut Cfg, &mut Rng),
    pub monitors: fn() -> Vec<Box<dyn Monitor>>,
    pub steer: Option<Steer>,
    pub lenient_bank: bool,
    /// custom world construction (default: the fully wired world of section 4.4)
    pub build: Option<fn(&Cfg, &mut Rng) -> Result<World, String>>,
}

pub fn op_json(op: &Op) -> Value {
    serde_json::to_value(op).unwrap_or(Value::Null)
}

pub fn run_full_history(spec: &FullWorldSpec, seed: u64, prop_salt: u64, index: u64, long: bool) -> HistoryReport {
    let mut rng = Rng::derive(seed, prop_salt, index);
    let mut cfg = random_cfg(&mut rng);
    (spec.tune_cfg)(&mut cfg, &mut rng);
    let built = match spec.build {
        Some(f) => f(&cfg, &mut rng),
        None => build_world(&cfg),
    };
    let mut world = match built {
        Ok(w) => w,
        Err(e) => {
            let mut out = Out::default();
            out.inconclusive.push(format!("world construction failed: {}", e));
            return HistoryReport { index, out, steps: 0, ok_steps: 0, cfg: cfg.describe(), log: vec![], op_kinds: Default::default() };
        }
    };
    world.bank_lenient = spec.lenient_bank;
    let mut monitors = (spec.monitors)();
    let mut out = Out::default();
    let mut snap = snap::take(&world);
    for m in monitors.iter_mut() {
        m.on_start(&world, &snap, &cfg, &mut out);
    }
    let mut g = GenState::default();
    let mut n = rng.range(spec.profile.steps.0, spec.profile.steps.1);
    if long {
        n *= 12;
    }
    let mut log: Vec<Value> = vec![];
    let mut steps = 0u64;
    let mut ok_steps = 0u64;
    let mut op_kinds: std::collections::BTreeMap<String, (u64, u64)> = Default::default();
    for step in 0..n as usize {
        let op = match spec.steer.and_then(|f| f(&mut rng, &snap, &cfg, &mut g, &world)) {
            Some(o) => o,
            None => gen::next_op(&mut rng, &snap, &cfg, &spec.profile, &mut g),
        };
        let w_pre = world.clone();
        let res = op.apply(&mut world);
        let post = snap::take(&world);
        steps += 1;
        let e = op_kinds.entry(op.kind().to_string()).or_insert((0, 0));
        e.0 += 1;
        if res.ok() {
            ok_steps += 1;
            e.1 += 1;
        }
        if let Some(t) = &res.tx {
            if t.harness_error {
                out.inconclusive.push(format!("harness error at step {}: {}", step, t.err));
            }
        }
        if !post.query_errors.is_empty() {
            out.violation(
                "HARNESS",
                "query_failed",
                format!(
                    "queries failed at a quiescent point: {:?} [reward global_index {} total_balance {} recorded {}; bSei supply {}; largest bSei balance {:?}]",
                    post.query_errors,
                    post.global_index,
                    post.reward_total_balance,
                    post.prev_reward_balance,
                    post.bsei.supply,
                    post.bsei.balances.iter().max_by_key(|x| *x.1)
                ),
            );
        }
        log.push(json!({
            "step": step, "time": w_pre.time, "op": op_json(&op),
            "ok": res.ok(), "err": res.tx.as_ref().map(|t| t.err.clone()).unwrap_or_default(),
        }));
        {
            let ctx = Ctx { cfg: &cfg, step, op: &op, res: &res, pre: &snap, post: &post, w_pre: &w_pre, w_post: &world };
            for m in monitors.iter_mut() {
                guarded(&mut out, &format!("step {} ({})", step, op.kind()), |out| m.on_step(&ctx, &mut rng, out));
            }
        }
        snap = post;
        if out.violations.iter().any(|v| v.known_sig.is_none()) {
            break;
        }
    }
    if !out.violations.iter().any(|v| v.known_sig.is_none()) {
        for m in monitors.iter_mut() {
            guarded(&mut out, "end of history", |out| m.on_end(&world, &snap, &cfg, &mut rng, out));
        }
    }
    HistoryReport { index, out, steps, ok_steps, cfg: cfg.describe(), log, op_kinds }
}

/// Run a monitor callback; a panic inside it (arithmetic on observed values that cannot be consistent, e.g. a
/// balance that grew where it must shrink) is turned into a violation instead of tearing the run down.
pub fn guarded<F: FnOnce(&mut Out)>(out: &mut Out, at: &str, f: F) {
    use crate::chain::{IN_MONITOR, LAST_PANIC};
    let was = IN_MONITOR.with(|x| x.replace(true));
    let mut local = Out::default();
    let r = std::panic::catch_unwind(std::panic::AssertUnwindSafe(|| f(&mut local)));
    IN_MONITOR.with(|x| x.set(was));
    out.merge(local);
    if r.is_err() {
        let msg = LAST_PANIC.with(|p| p.borrow().clone());
        out.violation("MONITOR", "observed_values_inconsistent", format!("at {}: the monitor's arithmetic on the observed values failed ({}): the observations contradict each other", at, msg));
    }
}

pub struct RunSummary {
    pub out: Out,
    pub histories: u64,
    pub steps: u64,
    pub ok_steps: u64,
    pub samples: Vec<Value>,
    pub first_violation: Option<(u64, Violation, Vec<Value>, String)>,
    pub op_kinds: std::collections::BTreeMap<String, (u64, u64)>,
}

impl RunSummary {
    pub fn absorb(&mut self, o: RunSummary) {
        self.out.merge(o.out);
        self.histories += o.histories;
        self.steps += o.steps;
        self.ok_steps += o.ok_steps;
        self.samples.extend(o.samples);
        if self.first_violation.is_none() {
            self.first_violation = o.first_violation;
        }
        for (k, v) in o.op_kinds {
            let e = self.op_kinds.entry(k).or_insert((0, 0));
            e.0 += v.0;
            e.1 += v.1;
        }
    }
}

/// Run `n` histories sharded over `threads` workers. `f(index)` must be deterministic.
pub fn run_sharded<F>(n: u64, threads: usize, f: F) -> RunSummary
where
    F: Fn(u64) -> HistoryReport + Sync,
{
    let next = AtomicU64::new(0);
    let stop = AtomicBool::new(false);
    let acc = Mutex::new(RunSummary {
        out: Out::default(),
        histories: 0,
        steps: 0,
        ok_steps: 0,
        samples: vec![],
        first_violation: None,
        op_kinds: Default::default(),
    });
    std::thread::scope(|s| {
        for _ in 0..threads.max(1) {
            s.spawn(|| loop {
                if stop.load(Ordering::Relaxed) {
                    break;
                }
                let i = next.fetch_add(1, Ordering::Relaxed);
                if i >= n {
                    break;
                }
                // a panic outside contract / monitor code is a harness defect: the history is reported as inconclusive
                crate::chain::MODEL_GAP.with(|g| *g.borrow_mut() = None);
                let rep = match std::panic::catch_unwind(std::panic::AssertUnwindSafe(|| f(i))) {
                    Ok(mut r) => {
                        // the mini-chain met something it does not model: nothing observed in this history says
                        // anything about the contracts
                        if let Some(gap) = crate::chain::MODEL_GAP.with(|g| g.borrow().clone()) {
                            r.out.violations.clear();
                            r.out.inconclusive.push(format!("history {}: the chain model has a gap here ({}); its observations are discarded", i, gap));
                        }
                        r
                    }
                    Err(p) => {
                        let mut out = Out::default();
                        out.inconclusive.push(format!("harness panic in history {}: {}", i, crate::chain::panic_text(&p)));
                        HistoryReport { index: i, out, steps: 0, ok_steps: 0, cfg: String::new(), log: vec![], op_kinds: Default::default() }
                    }
                };
                let mut a = acc.lock().unwrap();
                a.histories += 1;
                a.steps += rep.steps;
                a.ok_steps += rep.ok_steps;
                for (k, v) in rep.op_kinds.iter() {
                    let e = a.op_kinds.entry(k.clone()).or_insert((0, 0));
                    e.0 += v.0;
                    e.1 += v.1;
                }
                if a.samples.len() < 2 && rep.steps > 0 {
                    let l: Vec<Value> = rep.log.iter().take(40).cloned().collect();
                    a.samples.push(json!({"history_index": rep.index, "cfg": rep.cfg, "first_steps": l}));
                }
                let unknown: Vec<&Violation> = rep.out.violations.iter().filter(|v| v.known_sig.is_none()).collect();
                if let Some(v) = unknown.first() {
                    let better = match &a.first_violation {
                        None => true,
                        Some((idx, _, _, _)) => rep.index < *idx,
                    };
                    if better {
                        a.first_violation = Some((rep.index, (*v).clone(), rep.log.clone(), rep.cfg.clone()));
                    }
                    // KRPMON_NO_STOP=1 (validation runs only): keep going to collect every clause that fires
                    if std::env::var_os("KRPMON_NO_STOP").is_none() {
                        stop.store(true, Ordering::Relaxed);
                    }
                }
                a.out.merge(rep.out);
            });
        }
    });
    acc.into_inner().unwrap()
}
