//! Sanitizer lane (hygiene, decides no listed property): a short scripted full-world scenario that
//! traverses every contract, the 256-bit arithmetic (`bigint::U256` behind `Decimal256`, the only
//! `unsafe` on the executed paths) and the harness's own router / rollback / catch_unwind code.
//! Meant to be run under `cargo +nightly miri run -- miri <seed>` (see `check sanitize`); under a
//! normal build it simply runs fast and checks the same end-state assertions.

use crate::ops::*;
use crate::rng::Rng;
use crate::setup::*;

pub fn run(seed: u64) -> i32 {
    let mut r = Rng::new(seed ^ 0x5eed);
    let mut cfg = random_cfg(&mut r);
    cfg.n_users = 3;
    cfg.n_validators = 3;
    cfg.epoch_period = 30;
    cfg.unbonding_period = 100;
    cfg.peg_recovery_fee = dec("0.05");
    cfg.er_threshold = dec("1");
    cfg.keeper_rate = dec("0.1");
    cfg.price = dec("1.5");
    cfg.extra_denom = true;
    let mut w = match build_world(&cfg) {
        Ok(w) => w,
        Err(e) => {
            println!("SANITIZER-LANE world construction failed: {}", e);
            return 2;
        }
    };
    let a = |r: &mut Rng, lo: u128, hi: u128| r.range128(lo, hi);
    let script: Vec<Op> = vec![
        Op::Bond { user: "alice".into(), amount: a(&mut r, 1_000_000, 9_000_000) },
        Op::BondStSei { user: "bob".into(), amount: a(&mut r, 1_000_000, 9_000_000) },
        Op::Accrue { validator: "val1".into(), denom: USEI.into(), amount: a(&mut r, 10_000, 90_000) },
        Op::Accrue { validator: "val2".into(), denom: KUSD.into(), amount: a(&mut r, 10_000, 90_000) },
        Op::Accrue { validator: "val3".into(), denom: UATOM.into(), amount: a(&mut r, 10_000, 90_000) },
        Op::UpdateGlobalIndex { sender: UPDATER.into() },
        Op::ClaimRewards { user: "alice".into(), recipient: None },
        Op::Transfer { tok: Tok::B, from: "alice".into(), to: "carol".into(), amount: a(&mut r, 10, 100_000) },
        Op::IncreaseAllowance { tok: Tok::B, owner: "alice".into(), spender: "carol".into(), amount: 5_000, expires: Exp::Never },
        Op::Unbond { user: "carol".into(), tok: Tok::B, amount: 2_000, owner: Some("alice".into()) },
        Op::Unbond { user: "bob".into(), tok: Tok::St, amount: a(&mut r, 10, 500_000), owner: None },
        Op::Slash { validator: "val1".into(), num: 1, den: 10, unbonding: true },
        Op::Advance { dt: 31 },
        Op::Unbond { user: "alice".into(), tok: Tok::B, amount: a(&mut r, 10, 500_000), owner: None },
        Op::Convert { user: "alice".into(), tok: Tok::B, amount: a(&mut r, 10, 100_000), owner: None },
        Op::Convert { user: "bob".into(), tok: Tok::St, amount: a(&mut r, 10, 100_000), owner: None },
        Op::Slash { validator: "val2".into(), num: 1, den: 3, unbonding: true },
        Op::CheckSlashing { user: "carol".into() },
        Op::RemoveValidator { sender: OWNER.into(), validator: "val3".into() },
        Op::Advance { dt: 100 },
        Op::Withdraw { user: "bob".into() },
        Op::Withdraw { user: "alice".into() },
        Op::Withdraw { user: "carol".into() },
        Op::BurnFrom { tok: Tok::B, spender: "carol".into(), owner: "alice".into(), amount: 100 },
        // failing transactions exercise rollback and the panic path
        Op::Withdraw { user: "carol".into() },
        Op::Mint { tok: Tok::St, sender: "carol".into(), to: "carol".into(), amount: 5 },
        raw(HUB, DISPATCHER, &basset_sei_rewards_dispatcher::msg::ExecuteMsg::SwapToRewardDenom { bsei_total_bonded: u(0), stsei_total_bonded: u(0) }),
    ];
    let mut ok = 0;
    let mut failed = 0;
    for (i, op) in script.iter().enumerate() {
        let before = w.digest();
        let res = op.apply(&mut w);
        if res.ok() {
            ok += 1;
        } else {
            failed += 1;
            if w.digest() != before {
                println!("SANITIZER-LANE step {} ({}): a failed transaction changed the world", i, op.kind());
                return 1;
            }
        }
    }
    let s = crate::snap::take(&w);
    if !s.query_errors.is_empty() {
        println!("SANITIZER-LANE queries failed: {:?}", s.query_errors);
        return 1;
    }
    println!(
        "SANITIZER-LANE seed={} steps={} ok={} failed={} pools=({},{}) rates=({},{}) hub_balance={} history={} digest={:x}",
        seed, script.len(), ok, failed, s.pool_b, s.pool_s, s.rb, s.rs, s.hub_bank, s.history.len(), w.digest()
    );
    if ok < 20 {
        println!("SANITIZER-LANE too few successful steps ({})", ok);
        return 2;
    }
    0
}
