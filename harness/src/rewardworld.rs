//! Reward-contract world (C14, C15): the real reward contract, bSei token and hub configuration,
//! with deliveries injected by bank transfers followed by UpdateGlobalIndex from the dispatcher
//! address, and bSei minted / burnt directly by the hub address.

use crate::chain::World;
use crate::gen::GenState;
use crate::ops::*;
use crate::rng::Rng;
use crate::setup::*;
use crate::snap::Snap;

fn users(cfg: &Cfg) -> Vec<String> {
    USERS[..cfg.n_users].iter().map(|s| s.to_string()).collect()
}

pub fn reward_update_op() -> Op {
    raw(DISPATCHER, REWARD, &basset::reward::ExecuteMsg::UpdateGlobalIndex {})
}

pub fn steer(r: &mut Rng, s: &Snap, cfg: &Cfg, g: &mut GenState, _w: &World) -> Option<Op> {
    if let Some(op) = g.script.pop_front() {
        return Some(op);
    }
    let us = users(cfg);
    let holders: Vec<(String, u128)> = us.iter().map(|u| (u.clone(), *s.bsei.balances.get(u).unwrap_or(&0))).filter(|x| x.1 > 0).collect();
    let supply = s.bsei.supply;
    // state-targeted move: drain the whole supply, deliver rewards while nobody holds bSei, update, re-mint
    let all: Vec<(String, u128)> = s.bsei.balances.iter().filter(|(a, b)| **b > 0 && a.as_str() != HUB).map(|(a, b)| (a.clone(), *b)).collect();
    if supply > 0 && all.len() <= 5 && r.chance(1, 50) {
        let mut total = *s.bsei.balances.get(HUB).unwrap_or(&0);
        for (a, b) in all.iter() {
            g.script.push_back(Op::Transfer { tok: Tok::B, from: a.clone(), to: HUB.into(), amount: *b });
            total += *b;
        }
        g.script.push_back(Op::Burn { tok: Tok::B, user: HUB.into(), amount: total });
        for _ in 0..r.range(1, 2) {
            g.script.push_back(Op::Donate { to: REWARD.into(), denom: KUSD.into(), amount: r.amount(E18 / 1000) });
            g.script.push_back(reward_update_op());
        }
        g.script.push_back(Op::Mint { tok: Tok::B, sender: HUB.into(), to: r.pick(&us).clone(), amount: r.amount(E18 / 10) });
        g.script.push_back(reward_update_op());
        return g.script.pop_front();
    }
    let w = [14u32, 14, 3, 6, 5, 3, 4, 4, 14, 14, 14, 2];
    let k = if supply == 0 && r.chance(3, 4) { 0 } else { r.pick_weighted(&w) };
    let amt = |r: &mut Rng, max: u128| -> u128 {
        if max <= 1 {
            return 1;
        }
        if r.chance(1, 8) {
            return r.range128(1, 3).min(max);
        }
        r.amount(max)
    };
    Some(match k {
        0 => {
            let room = E18.saturating_sub(supply + 1);
            if room == 0 {
                return Some(Op::Advance { dt: 1 });
            }
            Op::Mint { tok: Tok::B, sender: HUB.into(), to: r.pick(&us).clone(), amount: amt(r, room) }
        }
        1 => {
            if holders.is_empty() {
                return Some(Op::Advance { dt: 1 });
            }
            let (from, bal) = r.pick(&holders).clone();
            let to = if r.chance(1, 12) { from.clone() } else { r.pick(&us).clone() };
            Op::Transfer { tok: Tok::B, from, to, amount: amt(r, bal) }
        }
        2 => {
            if holders.is_empty() {
                return Some(Op::Advance { dt: 1 });
            }
            let (from, bal) = r.pick(&holders).clone();
            Op::SendDummy { tok: Tok::B, from, amount: amt(r, bal) }
        }
        3 => {
            // move tokens to the hub (it burns them in the next branch)
            if holders.is_empty() {
                return Some(Op::Advance { dt: 1 });
            }
            let (from, bal) = r.pick(&holders).clone();
            Op::Transfer { tok: Tok::B, from, to: HUB.into(), amount: amt(r, bal) }
        }
        4 => {
            let hb = *s.bsei.balances.get(HUB).unwrap_or(&0);
            if hb == 0 {
                return Some(Op::Advance { dt: 1 });
            }
            Op::Burn { tok: Tok::B, user: HUB.into(), amount: amt(r, hb) }
        }
        5 => {
            if holders.is_empty() {
                return Some(Op::Advance { dt: 1 });
            }
            let (owner, bal) = r.pick(&holders).clone();
            Op::BurnFrom { tok: Tok::B, spender: r.pick(&us).clone(), owner, amount: amt(r, bal) }
        }
        6 => {
            if holders.is_empty() {
                return Some(Op::Advance { dt: 1 });
            }
            let (owner, bal) = r.pick(&holders).clone();
            Op::IncreaseAllowance { tok: Tok::B, owner, spender: r.pick(&us).clone(), amount: amt(r, bal), expires: Exp::None }
        }
        7 => {
            if holders.is_empty() {
                return Some(Op::Advance { dt: 1 });
            }
            let (owner, bal) = r.pick(&holders).clone();
            Op::TransferFrom { tok: Tok::B, spender: r.pick(&us).clone(), owner, to: r.pick(&us).clone(), amount: amt(r, bal) }
        }
        8 => {
            // delivery: coins reach the reward contract (what the dispatcher's bank transfer does)
            let amount = match r.below(6) {
                0 => 1,
                1 => r.range128(1, 20),
                2 => E18 / 100,
                _ => r.amount(E18 / 1000),
            };
            Op::Donate { to: REWARD.into(), denom: KUSD.into(), amount }
        }
        9 => reward_update_op(),
        10 => {
            let user = if r.chance(1, 10) || holders.is_empty() { r.pick(&us).clone() } else { r.pick(&holders).0.clone() };
            let recipient = if r.chance(1, 4) { Some(r.pick(&us).clone()) } else { None };
            Op::ClaimRewards { user, recipient }
        }
        _ => Op::Advance { dt: r.range(1, 100) },
    })
}
