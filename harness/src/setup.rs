//! Full-world construction: the six real contracts wired as in DESIGN.md section 4.4.

use crate::chain::*;
use crate::rng::Rng;
use basset::hub as h;
use cosmwasm_std::{to_json_binary, Decimal, Uint128};
use std::str::FromStr;

pub const HUB: &str = "hub";
pub const REWARD: &str = "reward";
pub const DISPATCHER: &str = "dispatcher";
pub const REGISTRY: &str = "registry";
pub const BSEI: &str = "bsei";
pub const STSEI: &str = "stsei";
pub const SWAP: &str = "swap";
pub const ORACLE: &str = "oracle";
pub const DUMMY: &str = "dummy";
pub const AIRDROP: &str = "airdropreg";
pub const OWNER: &str = "owner";
pub const KEEPER: &str = "keeper";
pub const UPDATER: &str = "updater";
pub const NOMINEE: &str = "nominee";
pub const EXOWNER: &str = "exowner";
pub const STRANGER: &str = "mallory";
pub const USEI: &str = "usei";
pub const KUSD: &str = "kusd";
pub const UATOM: &str = "uatom";

pub const USERS: [&str; 12] = [
    "alice", "bob", "carol", "dave", "erin", "frank", "grace", "heidi", "ivan", "judy", "kate", "leo",
];
pub const VALIDATORS: [&str; 8] = ["val1", "val2", "val3", "val4", "val5", "val6", "val7", "val8"];

pub const START_TIME: u64 = 1_700_000_000;
pub const E18: u128 = 1_000_000_000_000_000_000;

#[derive(Clone, Debug)]
pub struct Cfg {
    pub n_users: usize,
    pub n_validators: usize,
    pub epoch_period: u64,
    pub unbonding_period: u64,
    pub peg_recovery_fee: Decimal,
    pub er_threshold: Decimal,
    pub keeper_rate: Decimal,
    pub price: Decimal,
    pub extra_denom: bool,
    pub user_funds: u128,
}

impl Cfg {
    pub fn describe(&self) -> String {
        format!(
            "users={} validators={} epoch={} unbonding={} fee={} threshold={} keeper_rate={} price={} extra_denom={}",
            self.n_users,
            self.n_validators,
            self.epoch_period,
            self.unbonding_period,
            self.peg_recovery_fee,
            self.er_threshold,
            self.keeper_rate,
            self.price,
            self.extra_denom
        )
    }
}

pub fn dec<S: AsRef<str>>(s: S) -> Decimal {
    Decimal::from_str(s.as_ref()).unwrap()
}

pub fn random_cfg(r: &mut Rng) -> Cfg {
    let fees = ["0", "0.000000000000000001", "0.001", "0.005", "0.05", "0.3", "0.5", "1"];
    let thresholds = ["0", "0.5", "0.9", "0.99", "1", "1"];
    let keeper = ["0.05", "0.05", "0.1", "0.5", "0.000001", "0.25"];
    let prices = ["1", "1.5", "0.75", "0.000001", "1000000", "3.141592653589793238", "0.02", "42"];
    let epochs = [1u64, 5, 30, 100, 3600];
    let unbs = [1u64, 3, 60, 210, 1000, 100_000];
    Cfg {
        n_users: r.range(1, 12) as usize,
        n_validators: r.range(1, 8) as usize,
        epoch_period: *r.pick(&epochs),
        unbonding_period: *r.pick(&unbs),
        peg_recovery_fee: dec(r.pick(&fees)),
        er_threshold: dec(r.pick(&thresholds)),
        keeper_rate: dec(r.pick(&keeper)),
        price: dec(r.pick(&prices)),
        extra_denom: r.chance(1, 3),
        user_funds: E18,
    }
}

/// Messages and records of the contracts are built from JSON rather than as struct literals, so that a field added to
/// one of them (with a serde default) does not break the harness build.
pub fn mk<T: serde::de::DeserializeOwned>(v: serde_json::Value) -> T {
    match serde_json::from_value(v.clone()) {
        Ok(t) => t,
        Err(e) => panic!("harness cannot build {} from {}: {}", std::any::type_name::<T>(), v, e),
    }
}

pub fn hub_instantiate_msg(c: &Cfg) -> h::InstantiateMsg {
    mk(serde_json::json!({
        "epoch_period": c.epoch_period,
        "underlying_coin_denom": USEI,
        "unbonding_period": c.unbonding_period,
        "peg_recovery_fee": c.peg_recovery_fee,
        "er_threshold": c.er_threshold,
        "reward_denom": KUSD,
        "update_reward_index_addr": UPDATER,
    }))
}

pub fn dispatcher_instantiate_msg(c: &Cfg) -> basset_sei_rewards_dispatcher::msg::InstantiateMsg {
    let mut swap_denoms = vec![USEI.to_string(), KUSD.to_string()];
    if c.extra_denom {
        swap_denoms.push(UATOM.to_string());
    }
    mk(serde_json::json!({
        "hub_contract": HUB,
        "bsei_reward_contract": REWARD,
        "stsei_reward_denom": USEI,
        "bsei_reward_denom": KUSD,
        "krp_keeper_address": KEEPER,
        "krp_keeper_rate": c.keeper_rate,
        "swap_contract": SWAP,
        "swap_denoms": swap_denoms,
        "oracle_contract": ORACLE,
    }))
}

#[derive(Clone, Debug, Default)]
pub struct WorldOpts {
    pub bsei_initial: Vec<cw20::Cw20Coin>,
    pub stsei_initial: Vec<cw20::Cw20Coin>,
    /// point the dispatcher's bSei reward contract at the dummy contract (token world of C18: balances that were
    /// never announced to the reward contract must stay transferable)
    pub reward_is_dummy: bool,
    /// leave the hub without validators registry and airdrop registry (C10 state class)
    pub skip_registry: bool,
    /// staged deployment: leave one of the token addresses unregistered in the hub
    pub skip_bsei_token: bool,
    pub skip_stsei_token: bool,
}

pub fn build_world(c: &Cfg) -> Result<World, String> {
    build_world_with(c, &WorldOpts::default())
}

/// Build the fully wired world.
pub fn build_world_with(c: &Cfg, o: &WorldOpts) -> Result<World, String> {
    let mut w = World::new(START_TIME, c.unbonding_period, USEI, KUSD, c.price);
    w.other_prices.insert(UATOM.into(), dec("7.5"));

    let msg = hub_instantiate_msg(c);
    instantiate_with(&mut w, HUB, Kind::Hub, OWNER, |d, e, i| {
        basset_sei_hub::contract::instantiate(d, e, i, msg).map_err(|e| e.to_string())
    })?;
    instantiate_with(&mut w, REWARD, Kind::Reward, OWNER, |d, e, i| {
        basset_sei_reward::contract::instantiate(
            d,
            e,
            i,
            mk(serde_json::json!({"hub_contract": HUB, "reward_denom": KUSD, "swap_contract": SWAP, "swap_denoms": []})),
        )
        .map_err(|e| e.to_string())
    })?;
    let mut dmsg = dispatcher_instantiate_msg(c);
    if o.reward_is_dummy {
        dmsg.bsei_reward_contract = DUMMY.into();
    }
    let (bsei_initial, stsei_initial) = (o.bsei_initial.clone(), o.stsei_initial.clone());
    instantiate_with(&mut w, DISPATCHER, Kind::Dispatcher, OWNER, |d, e, i| {
        basset_sei_rewards_dispatcher::contract::instantiate(d, e, i, dmsg).map_err(|e| e.to_string())
    })?;
    let vals: Vec<serde_json::Value> = VALIDATORS[..c.n_validators].iter().map(|v| serde_json::json!({"address": v})).collect();
    instantiate_with(&mut w, REGISTRY, Kind::Registry, OWNER, |d, e, i| {
        basset_sei_validators_registry::contract::instantiate(
            d,
            e,
            i,
            mk(serde_json::json!({"hub_contract": HUB, "registry": vals})),
        )
        .map_err(|e| e.to_string())
    })?;
    instantiate_with(&mut w, BSEI, Kind::BSei, OWNER, |d, e, i| {
        basset_sei_token_bsei::contract::instantiate(
            d,
            e,
            i,
            mk(serde_json::json!({"name": "bonded sei", "symbol": "BSEI", "decimals": 6, "initial_balances": bsei_initial, "hub_contract": HUB})),
        )
        .map_err(|e| e.to_string())
    })?;
    instantiate_with(&mut w, STSEI, Kind::StSei, OWNER, |d, e, i| {
        basset_sei_token_stsei::contract::instantiate(
            d,
            e,
            i,
            mk(serde_json::json!({
                "name": "staked sei", "symbol": "STSEI", "decimals": 6, "initial_balances": stsei_initial, "hub_contract": HUB,
                "marketing": {"project": null, "description": null, "marketing": OWNER, "logo": null},
            })),
        )
        .map_err(|e| e.to_string())
    })?;
    add_stub(&mut w, SWAP, Kind::Swap);
    add_stub(&mut w, ORACLE, Kind::Oracle);
    add_stub(&mut w, DUMMY, Kind::Dummy);
    add_stub(&mut w, AIRDROP, Kind::Dummy);

    let r = w.tx(
        OWNER,
        HUB,
        &cosmwasm_std::Binary::from(
            serde_json::json!({"update_config": {
                "rewards_dispatcher_contract": DISPATCHER,
                "validators_registry_contract": if o.skip_registry { None } else { Some(REGISTRY) },
                "bsei_token_contract": if o.skip_bsei_token { None } else { Some(BSEI) },
                "stsei_token_contract": if o.skip_stsei_token { None } else { Some(STSEI) },
                "airdrop_registry_contract": if o.skip_registry { None } else { Some(AIRDROP) },
                "rewards_contract": REWARD,
                "update_reward_index_addr": null,
            }})
            .to_string()
            .into_bytes(),
        ),
        &[],
    );
    if !r.ok {
        return Err(format!("hub UpdateConfig failed: {}", r.err));
    }
    for u in USERS[..c.n_users].iter() {
        w.mint_coins(u, USEI, c.user_funds);
    }
    Ok(w)
}

pub fn u(x: u128) -> Uint128 {
    Uint128::new(x)
}
