//! Property registry, CLI, verdicts.

use crate::driver::*;
use crate::evidence::*;
use crate::gen::Profile;
use crate::mon::Monitor;
use crate::monitors::*;
use crate::rng::Rng;
use crate::setup::*;
use serde_json::{json, Value};
use std::collections::BTreeMap;

pub struct PropDef {
    pub id: &'static str,
    pub salt: u64,
    /// (quick histories, thorough histories, thorough long histories)
    pub budget: (u64, u64, u64),
    /// workload specifications; history i uses specs[i % len]
    pub specs: &'static [fn() -> FullWorldSpec],
    pub required: &'static [(&'static str, u64)],
    pub rule: &'static str,
}

fn no_tune(_c: &mut Cfg, _r: &mut Rng) {}

fn tune_slashy(c: &mut Cfg, r: &mut Rng) {
    // make sure fee paths are live in a good share of histories
    if r.chance(1, 2) {
        c.er_threshold = dec("1");
        let fees = ["0.001", "0.05", "0.5", "1", "0.000000000000000001"];
        c.peg_recovery_fee = dec(r.pick(&fees));
    }
}

fn tune_short_periods(c: &mut Cfg, r: &mut Rng) {
    if r.chance(2, 3) {
        c.epoch_period = *r.pick(&[1u64, 3, 10, 30]);
        c.unbonding_period = *r.pick(&[1u64, 5, 20, 60, 210]);
    }
}

fn tune_c01(c: &mut Cfg, r: &mut Rng) {
    tune_short_periods(c, r);
    if c.n_users < 3 && r.chance(2, 3) {
        c.n_users = r.range(3, 12) as usize;
    }
}

fn spec_c01() -> FullWorldSpec {
    let mut p = Profile::economy("c01");
    p.w_unbond = 24;
    p.w_withdraw = 10;
    p.w_advance = 20;
    p.w_slash = 5;
    p.w_donate = 3;
    p.dust_permille = 150;
    FullWorldSpec { profile: p, tune_cfg: tune_c01, monitors: || vec![Box::new(c01::C01::new()) as Box<dyn Monitor>], steer: None, lenient_bank: false, build: None }
}

fn spec_c02() -> FullWorldSpec {
    let mut p = Profile::economy("c02");
    p.w_registry = 6;
    p.w_slash = 6;
    p.w_bond = 14;
    p.w_bond_st = 14;
    FullWorldSpec {
        profile: p,
        tune_cfg: |c, r| {
            tune_short_periods(c, r);
            if r.chance(1, 2) {
                c.n_validators = r.range(3, 8) as usize;
            }
        },
        monitors: || vec![Box::new(c02::C02::default()) as Box<dyn Monitor>],
        steer: None,
        lenient_bank: false,
        build: None,
    }
}

fn spec_c03() -> FullWorldSpec {
    let mut p = Profile::economy("c03");
    p.w_convert = 12;
    p.w_burn_from = 3;
    p.w_slash = 5;
    FullWorldSpec { profile: p, tune_cfg: |c, r| { tune_short_periods(c, r); tune_slashy(c, r) }, monitors: || vec![Box::new(c03::C03::default()) as Box<dyn Monitor>], steer: None, lenient_bank: false, build: None }
}

fn spec_c04() -> FullWorldSpec {
    let mut p = Profile::economy("c04");
    p.w_convert = 10;
    p.w_burn_from = 2;
    p.w_registry = 3;
    p.w_ugi = 7;
    FullWorldSpec { profile: p, tune_cfg: |c, r| { tune_short_periods(c, r); tune_slashy(c, r) }, monitors: || vec![Box::new(c04::C04::default()) as Box<dyn Monitor>], steer: None, lenient_bank: false, build: None }
}

/// State-targeted prefix for C05: reach a bSei rate that equals the threshold exactly (single validator, even
/// bSei-only stake slashed by one half, threshold 0.5), then run every fee path there.
fn steer_c05(r: &mut Rng, _s: &crate::snap::Snap, cfg: &Cfg, g: &mut crate::gen::GenState, _w: &crate::chain::World) -> Option<crate::ops::Op> {
    use crate::ops::{Op, Tok};
    if let Some(op) = g.script.pop_front() {
        return Some(op);
    }
    if g.prefix_done {
        return None;
    }
    g.prefix_done = true;
    if cfg.n_validators != 1 || cfg.er_threshold != dec("0.5") || cfg.n_users < 3 {
        return None;
    }
    let a = 2 * r.range128(1, 1_000_000_000_000);
    let b = 2 * r.range128(1, 1_000_000);
    let u = |i: usize| USERS[i].to_string();
    for op in [
        Op::Bond { user: u(0), amount: a },
        Op::Bond { user: u(1), amount: b },
        Op::Slash { validator: VALIDATORS[0].into(), num: 1, den: 2, unbonding: false },
        Op::CheckSlashing { user: u(2) },
        Op::BondStSei { user: u(2), amount: r.range128(10, 1_000_000) },
        Op::Unbond { user: u(0), tok: Tok::B, amount: r.range128(1, a / 2), owner: None },
        Op::Bond { user: u(1), amount: r.range128(2, 1_000_000) },
        Op::Convert { user: u(2), tok: Tok::St, amount: r.range128(2, 9), owner: None },
        Op::Convert { user: u(0), tok: Tok::B, amount: r.range128(2, 100), owner: None },
    ] {
        g.script.push_back(op);
    }
    g.script.pop_front()
}

fn spec_c05() -> FullWorldSpec {
    let mut p = Profile::economy("c05");
    p.steps = (40, 120);
    p.w_convert = 16;
    p.w_slash = 8;
    p.w_bond = 12;
    p.w_unbond = 14;
    p.w_params = 3;
    FullWorldSpec {
        profile: p,
        tune_cfg: |c, r| {
            tune_short_periods(c, r);
            c.er_threshold = dec(r.pick(&["1", "1", "1", "0.9", "0"]));
            c.peg_recovery_fee = dec(r.pick(&["0", "0.000000000000000001", "0.001", "0.05", "0.5", "1", "0.3"]));
            if r.chance(1, 8) {
                // histories that start by putting the bSei rate exactly on the threshold (see steer_c05)
                c.er_threshold = dec("0.5");
                c.n_validators = 1;
                c.n_users = c.n_users.max(3);
                c.peg_recovery_fee = dec(r.pick(&["0.001", "0.05", "0.5", "1"]));
            }
        },
        monitors: || vec![Box::new(c05::C05::default()) as Box<dyn Monitor>],
        steer: Some(steer_c05),
        lenient_bank: false,
        build: None,
    }
}

fn spec_c06() -> FullWorldSpec {
    let mut p = Profile::economy("c06");
    p.w_slash = 12;
    p.w_check = 8;
    p.w_withdraw = 10;
    FullWorldSpec { profile: p, tune_cfg: tune_c01, monitors: || vec![Box::new(c06::C06::default()) as Box<dyn Monitor>], steer: None, lenient_bank: false, build: None }
}

fn spec_c07() -> FullWorldSpec {
    let mut p = Profile::economy("c07");
    p.w_unbond = 26;
    p.w_allowance = 10;
    p.w_invalid = 4;
    FullWorldSpec {
        profile: p,
        tune_cfg: |c, r| {
            tune_c01(c, r);
            tune_slashy(c, r)
        },
        monitors: || vec![Box::new(c07::C07::default()) as Box<dyn Monitor>],
        steer: None,
        lenient_bank: false,
        build: None,
    }
}

fn spec_c08() -> FullWorldSpec {
    let mut p = Profile::economy("c08");
    p.w_unbond = 24;
    p.w_advance = 26;
    p.w_withdraw = 14;
    p.w_params = 2;
    FullWorldSpec {
        profile: p,
        tune_cfg: |c, r| {
            c.epoch_period = *r.pick(&[1u64, 2, 5, 30, 300, 10_000_000]);
            c.unbonding_period = *r.pick(&[1u64, 2, 7, 60, 210, 10_000_000]);
        },
        monitors: || vec![Box::new(c08::C08::default()) as Box<dyn Monitor>],
        steer: None,
        lenient_bank: false,
        build: None,
    }
}

fn spec_c09() -> FullWorldSpec {
    let mut p = Profile::economy("c09");
    p.steps = (40, 140);
    p.w_slash = 7;
    p.w_faults = 4;
    p.w_registry = 3;
    p.dust_permille = 200;
    FullWorldSpec { profile: p, tune_cfg: |c, r| { tune_c01(c, r); tune_slashy(c, r) }, monitors: || vec![Box::new(c09::C09::new()) as Box<dyn Monitor>], steer: None, lenient_bank: false, build: None }
}

fn spec_c13() -> FullWorldSpec {
    let mut p = Profile::economy("c13");
    p.w_registry = 14;
    p.w_accrue = 8;
    p.w_slash = 5;
    FullWorldSpec {
        profile: p,
        tune_cfg: |c, r| {
            tune_short_periods(c, r);
            c.n_validators = r.range(2, 8) as usize;
        },
        monitors: || vec![Box::new(c13::C13::default()) as Box<dyn Monitor>],
        steer: None,
        lenient_bank: false,
        build: None,
    }
}

fn spec_c16() -> FullWorldSpec {
    let mut p = Profile::economy("c16");
    p.w_transfer = 14;
    p.w_allowance = 14;
    p.w_burn_from = 5;
    p.w_convert = 10;
    p.w_invalid = 3;
    FullWorldSpec { profile: p, tune_cfg: |c, r| { tune_short_periods(c, r); tune_slashy(c, r) }, monitors: || vec![Box::new(c16::C16::default()) as Box<dyn Monitor>], steer: None, lenient_bank: false, build: None }
}

fn spec_c19() -> FullWorldSpec {
    let mut p = Profile::economy("c19");
    p.w_ugi = 14;
    p.w_accrue = 16;
    p.w_donate = 4;
    p.w_registry = 3;
    FullWorldSpec { profile: p, tune_cfg: tune_short_periods, monitors: || vec![Box::new(c19::C19::default()) as Box<dyn Monitor>], steer: None, lenient_bank: false, build: None }
}

fn spec_c14() -> FullWorldSpec {
    let mut p = Profile::economy("c14");
    p.steps = (100, 300);
    FullWorldSpec { profile: p, tune_cfg: no_tune, monitors: || vec![Box::new(c14::C14::default()) as Box<dyn Monitor>], steer: Some(crate::rewardworld::steer), lenient_bank: false, build: None }
}

fn spec_c15() -> FullWorldSpec {
    let mut p = Profile::economy("c15");
    p.steps = (100, 300);
    FullWorldSpec { profile: p, tune_cfg: no_tune, monitors: || vec![Box::new(c15::C15::default()) as Box<dyn Monitor>], steer: Some(crate::rewardworld::steer), lenient_bank: false, build: None }
}

fn spec_c18() -> FullWorldSpec {
    let mut p = Profile::economy("c18");
    p.steps = (80, 240);
    FullWorldSpec {
        profile: p,
        tune_cfg: |c, r| {
            c.n_users = r.range(3, 12) as usize;
        },
        monitors: || vec![Box::new(c18::C18::default()) as Box<dyn Monitor>],
        steer: Some(crate::tokenworld::steer),
        lenient_bank: false,
        build: Some(crate::tokenworld::build),
    }
}

fn spec_c17() -> FullWorldSpec {
    let mut p = Profile::economy("c17");
    p.steps = (160, 400);
    FullWorldSpec {
        profile: p,
        tune_cfg: |c, r| {
            c.extra_denom = r.chance(1, 2);
        },
        monitors: || vec![Box::new(c17::C17::default()) as Box<dyn Monitor>],
        steer: Some(crate::dispworld::steer),
        lenient_bank: false,
        build: None,
    }
}

fn spec_c14_full() -> FullWorldSpec {
    let mut sp = spec_c19();
    sp.monitors = || vec![Box::new(c14::C14::default()) as Box<dyn Monitor>];
    sp.profile.w_claim = 10;
    sp.profile.w_transfer = 8;
    sp
}

fn spec_c15_full() -> FullWorldSpec {
    let mut sp = spec_c19();
    sp.monitors = || vec![Box::new(c15::C15::default()) as Box<dyn Monitor>];
    sp.profile.w_claim = 8;
    sp.profile.w_transfer = 10;
    sp
}

fn spec_c16_reward() -> FullWorldSpec {
    let mut sp = spec_c14();
    sp.monitors = || vec![Box::new(c16::C16::default()) as Box<dyn Monitor>];
    sp
}

fn spec_c18_full() -> FullWorldSpec {
    let mut sp = spec_c16();
    sp.monitors = || vec![Box::new(c18::C18::default()) as Box<dyn Monitor>];
    sp
}

pub fn spec_c12_insitu() -> FullWorldSpec {
    let mut sp = spec_c02();
    sp.monitors = || vec![Box::new(c12::C12InSitu::default()) as Box<dyn Monitor>];
    sp
}

pub fn defs() -> Vec<PropDef> {
    let _ = no_tune;
    vec![
        PropDef {
            id: "C01", salt: 1, budget: (600, 12_000, 200), specs: &[spec_c01],
            required: &[("c01.withdraw_ok", 1), ("c01.release_groups_2plus", 1), ("c01.release_groups_3plus", 1), ("c01.release_groups_with_unbonding_slashing", 1), ("c01.release_groups_with_donation", 1), ("c01.release_groups_with_older_unpaid_claims", 1), ("c01.release_groups_mixed_tokens", 1), ("c01.dry_runs_with_3_or_more_claimants", 1), ("c01.release_groups_dust_bound_checked", 1)],
            rule: "full-world histories (seeded swarm config, boundary-biased amounts and clock moves); a case is a successful withdrawal or a release group; distinct = (kind, #batches paid / released together, slashed-while-unbonding?, donation in window?, older unpaid claims?, mixed tokens?, decade of value)",
        },
        PropDef {
            id: "C02", salt: 2, budget: (500, 10_000, 100), specs: &[spec_c02],
            required: &[("c02.bond_executions", 1), ("c02.bonds_3plus_validators_some_skipped", 1), ("c02.bonds_right_after_removal", 1), ("c02.unbonds_undelegating_from_2plus_validators", 1), ("c02.pricing_ops_with_pending_slashing", 1), ("c02.balance_checks", 1)],
            rule: "full-world histories with uneven validators and registry changes; a case is a hub bond execution or an undelegating unbond; distinct = (kind, registry size, #targets, decade of amount, slashing pending?)",
        },
        PropDef {
            id: "C03", salt: 3, budget: (500, 10_000, 100), specs: &[spec_c03],
            required: &[("c03.consistency_with_open_requests", 1), ("c03.consistency_rate_below_1", 1), ("c03.consistency_rate_equal_1", 1), ("c03.consistency_stsei_rate_above_1", 1), ("c03.mints_with_fee", 1), ("c03.mints_without_fee", 1), ("c03.converts_stsei_to_bsei", 1), ("c03.converts_bsei_to_stsei", 1), ("c03.undelegating_unbonds", 1)],
            rule: "full-world histories; a case is a successful mint / convert / undelegation priced against the pre-state; distinct = (path, rate class of each pool, decade of amount, fee charged?, open requests?)",
        },
        PropDef {
            id: "C04", salt: 4, budget: (600, 12_000, 200), specs: &[spec_c04],
            required: &[("c04.rate_comparisons", 1), ("c04.passive_holder_value_checks", 1), ("c04.index_updates_rebonding", 1), ("c04.compared_after_unbond_bsei", 1), ("c04.compared_after_convert_bsei_stsei", 1), ("c04.compared_after_convert_stsei_bsei", 1), ("c04.compared_after_withdraw", 1), ("c04.compared_after_burn_from", 1), ("c04.compared_after_remove_validator", 1)],
            rule: "full-world histories; a case is a pair of consecutive quiescent states around a successful non-slashing step with the token outstanding; distinct = (op kind, token, rate class before, rate moved?, decade of claims)",
        },
        PropDef {
            id: "C05", salt: 5, budget: (800, 15_000, 100), specs: &[spec_c05],
            required: &[("c05.bond.fee_charged", 1), ("c05.unbond.fee_charged", 1), ("c05.convert_stsei_bsei.fee_charged", 1), ("c05.convert_bsei_stsei.fee_charged", 1), ("c05.bond.at_or_above_threshold", 1), ("c05.ops_exactly_at_threshold_below_one", 1)],
            rule: "full-world histories steered into slashed states with fee/threshold swarms; a case is a successful operation on one of the four fee paths; distinct = (path, below threshold?, fee charged?, proportional cap binding?, decade of base, rate class)",
        },
        PropDef {
            id: "C06", salt: 6, budget: (600, 12_000, 100), specs: &[spec_c06],
            required: &[("c06.checks_both_pools_nonempty", 1), ("c06.checks_one_pool_empty", 1), ("c06.checks_no_slashing_pending", 1), ("c06.checks_heavy_loss", 1), ("c06.explicit_checks_recognising_slashing", 1), ("c06.release_groups_2plus_with_loss", 1)],
            rule: "full-world histories with frequent slashing; a case is a quiescent state with unrecognised slashing, or a release group with loss; distinct = (kind, empty pool?, decade of loss, decade of books / group shape)",
        },
        PropDef {
            id: "C07", salt: 7, budget: (500, 10_000, 100), specs: &[spec_c07],
            required: &[("c07.unbonds", 1), ("c07.unbonds_via_send_from", 1), ("c07.unbonds_closing_a_batch", 1), ("c07.unbonds_into_mixed_batch", 1), ("c07.withdrawals", 1), ("c07.forged_receive_attempts", 1), ("c07.closed_batch_sum_checks", 1)],
            rule: "full-world histories with many unbonders and allowances; a case is an accepted unbond; distinct = (token, via allowance?, fee charged?, closes batch?, decade of amount, ledger size)",
        },
        PropDef {
            id: "C08", salt: 8, budget: (600, 12_000, 100), specs: &[spec_c08],
            required: &[("c08.undelegations", 1), ("c08.releases", 1), ("c08.withdraw_attempts_exactly_at_boundary", 1), ("c08.withdraw_attempts_one_second_early", 1), ("c08.unbonds_first_second_after_epoch", 1), ("c08.unbonds_exactly_at_epoch_boundary_not_undelegating", 1), ("c08.withdrawals_with_unripe_claims_left", 1)],
            rule: "full-world histories with boundary-second clock moves; a case is an undelegation or a withdrawal; distinct = (kind, shape, boundary flags)",
        },
        PropDef {
            id: "C09", salt: 9, budget: (300, 5_000, 50), specs: &[spec_c09],
            required: &[("c09.exit_states_sampled", 1), ("c09.exit_withdraw_ok", 1), ("c09.exit_states_dust", 1), ("c09.staggered_second_claim_paid", 1), ("c09.paired_fault_runs", 1), ("c09.traces_checked", 1)],
            rule: "full-world histories; cases are (a) exit dry-runs (unbond -> epoch -> undelegate -> unbonding -> withdraw) from sampled reachable states for every holder, token and three amounts, (b) each exit-type operation re-run under 15 swap/oracle failure patterns; distinct = (kind, token / op, decades, dust state?, rate class)",
        },
        PropDef {
            id: "C13", salt: 13, budget: (400, 8_000, 100), specs: &[spec_c13],
            required: &[("c13.removals_with_stake_redelegated", 1), ("c13.last_validator_removal_rejected", 1), ("c13.removals_of_re_added_validator", 1), ("c13.removals_with_pending_rewards", 1), ("c13.removals_with_inflight_batches", 1), ("c13.delegations_checked", 1)],
            rule: "full-world histories with frequent registry changes; a case is a successful removal by the owner; distinct = (kind, registry size, #redelegations, decade of stake, pending rewards?)",
        },
        PropDef {
            id: "C14", salt: 14, budget: (1000, 20_000, 100), specs: &[spec_c14, spec_c14, spec_c14_full],
            required: &[("c14.invariant_checks", 1), ("c14.index_updates_with_holders", 1), ("c14.index_update_attempts_without_holders_with_undistributed_delivery", 1), ("c14.claims_ok", 1), ("c14.claims_to_third_party", 1), ("c14.claims_keeping_a_fraction", 1), ("c14.updates_one_unit_against_huge_supply", 1), ("c14.updates_huge_reward_against_dust_supply", 1)],
            rule: "reward-contract world (real reward contract + bSei token + hub config; deliveries by bank transfer + UpdateGlobalIndex from the dispatcher address; mint/burn by the hub address); a case is a claim or an index update; distinct = (kind, decade of amount, fraction kept? / decade of supply, third-party recipient?, #holders)",
        },
        PropDef {
            id: "C15", salt: 15, budget: (500, 10_000, 100), specs: &[spec_c15, spec_c15, spec_c15_full],
            required: &[("c15.ledger_comparisons", 1), ("c15.updates_with_3plus_holders", 1), ("c15.claims", 1), ("c15.balance_changes_checked", 1), ("c15.twins_reordered_compared", 1), ("c15.twins_others_claims_removed_compared", 1), ("c15.twins_split_compared", 1)],
            rule: "reward-contract world; reference ledger in exact 1e-36 arithmetic fed by observed balances and deliveries; plus three relational twins per history replayed from the initial world (other holders' operations between updates reordered; other holders' claims / allowance operations removed; the observed position split over two accounts), compared in exact 1e-18 units; a case is an index update with holders; distinct = (#holders, decade of delivery, decade of supply)",
        },
        PropDef {
            id: "C16", salt: 16, budget: (600, 12_000, 100), specs: &[spec_c16, spec_c16, spec_c16_reward],
            required: &[("c16.mirror_checks", 1), ("c16.bsei_op.transfer", 1), ("c16.bsei_op.transfer_from.via_allowance", 1), ("c16.bsei_op.burn_from.via_allowance", 1), ("c16.bsei_op.unbond_bsei", 1), ("c16.bsei_op.unbond_bsei.via_allowance", 1), ("c16.bsei_op.convert_bsei_stsei", 1), ("c16.bsei_op.convert_stsei_bsei", 1), ("c16.bsei_op.send_dummy", 1), ("c16.self_transfer_attempts", 1)],
            rule: "full-world histories heavy on bSei token operations; a case is a successful bSei-touching operation; distinct = (op kind, via allowance?, self transfer?, #holders, decade of supply)",
        },
        PropDef {
            id: "C17", salt: 17, budget: (600, 15_000, 100), specs: &[spec_c17],
            required: &[("c17.swaps_judged", 1), ("c17.dispatches_judged", 1), ("c17.swaps_with_extra_denom", 1), ("c17.swaps_one_sided_bonded", 1), ("c17.swaps_one_sided_balances", 1), ("c17.dispatches_with_nothing", 1)],
            rule: "dispatcher world (real dispatcher driven by the hub address; real hub / reward contract / registry behind it; stub swap and oracle); a case is a SwapToRewardDenom or DispatchRewards execution; distinct = (kind, decades of holdings, one-sided bonded?, decades of bonded, decade of price, direction, extra denom? / keeper rate class)",
        },
        PropDef {
            id: "C18", salt: 18, budget: (1000, 20_000, 100), specs: &[spec_c18, spec_c18, spec_c18_full],
            required: &[("c18.conservation_checks", 1), ("c18.worlds_with_initial_balances", 1), ("c18.mints_by_others_rejected", 1), ("c18.burns_by_others_rejected", 1), ("c18.burns_by_hub", 1), ("c18.transfer_from_ok", 1), ("c18.burn_from_ok", 1), ("c18.send_from_ok", 1), ("c18.spends_rejected_expired", 1), ("c18.spends_rejected_over_allowance", 1), ("c18.spends_under_expiring_allowance", 1), ("c18.burns_requiring_rate_refresh", 1)],
            rule: "token world (both real tokens instantiated with random initial balances incl. repeated / differently-cased addresses and zero rows; reward hook on a dummy; real hub) driven by arbitrary principals; a case is a successful token operation; distinct = (op kind, #bSei accounts, #stSei accounts, #live allowances)",
        },
        PropDef {
            id: "C19", salt: 19, budget: (400, 8_000, 100), specs: &[spec_c19],
            required: &[("c19.updates_judged", 1), ("c19.updates_rebonding", 1), ("c19.updates_delivering_to_holders", 1), ("c19.updates_with_rewards_on_2plus_validators", 1), ("c19.updates_with_nothing_pending", 1), ("c19.updates_split_checked_both_pools", 1), ("c19.validator_removals_seen", 1)],
            rule: "full-world histories with multi-denomination reward accrual; a case is an UpdateGlobalIndex by the designated updater; distinct = (empty bSei pool?, empty stSei pool?, decades of rewards, extra denom?, re-bond?, holders?, in-flight batch?)",
        },
    ]
}

fn assumptions() -> Vec<String> {
    vec![
        "operating envelope of DESIGN.md section 4 (amounts and totals <= 1e18, chain unbonding time = hub unbonding_period, BeginBlock maturation, trusted owner wiring)".into(),
        "mini-chain model of bank / staking / distribution / wasm router (atomic transactions, JSON re-parse of every message)".into(),
        "contracts executed natively (same sources as the wasm build, overflow-checks on); gas and wasm memory limits not modelled".into(),
    ]
}

pub fn run_cli(args: &[String]) -> i32 {
    if args.is_empty() {
        eprintln!("usage: krpmon <property|list> [--tier quick|thorough] [--seed N] [--threads N] [--histories N] [--replay file]");
        return 2;
    }
    let id = args[0].to_uppercase();
    let mut tier = std::env::var("VERIF_TIER").unwrap_or_else(|_| "quick".into());
    let mut seed: u64 = std::env::var("VERIF_SEED").ok().and_then(|s| s.parse().ok()).unwrap_or(1);
    let mut threads: usize = std::thread::available_parallelism().map(|n| n.get()).unwrap_or(8);
    let mut histories: Option<u64> = None;
    let mut replay: Option<String> = None;
    let mut i = 1;
    while i < args.len() {
        match args[i].as_str() {
            "--tier" => { tier = args[i + 1].clone(); i += 1; }
            "--seed" => { seed = args[i + 1].parse().unwrap_or(1); i += 1; }
            "--threads" => { threads = args[i + 1].parse().unwrap_or(8); i += 1; }
            "--histories" => { histories = args[i + 1].parse().ok(); i += 1; }
            "--replay" => { replay = Some(args[i + 1].clone()); i += 1; }
            "quick" | "thorough" => tier = args[i].clone(),
            _ => {}
        }
        i += 1;
    }
    if tier != "quick" && tier != "thorough" {
        tier = "quick".into();
    }
    crate::mon::THOROUGH.store(tier == "thorough", std::sync::atomic::Ordering::Relaxed);
    if id == "LIST" {
        for d in defs() {
            println!("{}", d.id);
        }
        for x in crate::props_custom::ids() {
            println!("{}", x);
        }
        return 0;
    }
    if let Some(code) = crate::props_custom::run(&id, &tier, seed, threads, histories, replay.as_deref()) {
        return code;
    }
    let d = match defs().into_iter().find(|d| d.id == id) {
        Some(d) => d,
        None => {
            eprintln!("unknown property {}", id);
            return 2;
        }
    };
    let t0 = std::time::Instant::now();
    let specs: Vec<FullWorldSpec> = d.specs.iter().map(|f| f()).collect();
    let pick = |i: u64| -> &FullWorldSpec { &specs[(i % specs.len() as u64) as usize] };
    let (n_short, n_long) = if tier == "quick" { (d.budget.0, 0) } else { (d.budget.1, d.budget.2) };
    let n_short = histories.unwrap_or(n_short);
    let salt = d.salt;
    let sum = if let Some(path) = &replay {
        // replay one recorded history (same seed / index / tier => same history)
        let v: Value = match std::fs::read_to_string(path).ok().and_then(|s| serde_json::from_str(&s).ok()) {
            Some(v) => v,
            None => {
                eprintln!("cannot read replay file {}", path);
                return 2;
            }
        };
        let rseed = v["seed"].as_u64().unwrap_or(seed);
        let idx = v["history_index"].as_u64().unwrap_or(0);
        seed = rseed;
        run_sharded(1, 1, |_| run_full_history(pick(idx), rseed, salt, idx, idx >= LONG_BASE))
    } else {
        let total = n_short + n_long;
        run_sharded(total, threads, |i| {
            if i < n_short {
                run_full_history(pick(i), seed, salt, i, false)
            } else {
                let j = LONG_BASE + (i - n_short);
                run_full_history(pick(j), seed, salt, j, true)
            }
        })
    };
    finish(d.id, &tier, seed, sum, d.required, d.rule, t0, replay.is_some(), json!({}))
}

pub const LONG_BASE: u64 = 1_000_000_000;

pub fn finish(id: &str, tier: &str, seed: u64, sum: RunSummary, required: &[(&str, u64)], rule: &str, t0: std::time::Instant, is_replay: bool, extra: Value) -> i32 {
    let known = load_known();
    let mut known_hits: BTreeMap<String, u64> = BTreeMap::new();
    let mut unlisted = 0i64;
    let mut first_unlisted_known_sig: Option<String> = None;
    for v in sum.out.violations.iter() {
        match &v.known_sig {
            Some(sig) if known.known.get(id).map(|m| m.contains_key(sig)).unwrap_or(false) => {
                *known_hits.entry(sig.clone()).or_insert(0) += 1;
            }
            Some(sig) => {
                unlisted += 1;
                if first_unlisted_known_sig.is_none() {
                    first_unlisted_known_sig = Some(format!("{}: {}", sig, v.msg));
                }
            }
            None => unlisted += 1,
        }
    }
    let mut inconclusive: Vec<String> = sum.out.inconclusive.iter().take(5).cloned().collect();
    if !is_replay {
        for (k, m) in required {
            let got = sum.out.counters.get(*k).cloned().unwrap_or(0);
            if got < *m {
                inconclusive.push(format!("antecedent {} observed {} times (minimum {})", k, got, m));
            }
        }
    }
    let wall = t0.elapsed().as_secs_f64();
    let verdict = if unlisted > 0 { "violated" } else if !inconclusive.is_empty() { "inconclusive" } else { "held" };
    if !is_replay {
        write_evidence(id, tier, seed, "exploration", &sum, rule, required, &assumptions(), wall, unlisted, &known_hits, verdict, extra);
    }
    println!(
        "{} tier={} seed={} histories={} steps={} ok_steps={} distinct={} wall={:.1}s verdict={}",
        id, tier, seed, sum.histories, sum.steps, sum.ok_steps, sum.out.distinct.len(), wall, verdict
    );
    for (sig, n) in known_hits.iter() {
        let what = known.known.get(id).and_then(|m| m.get(sig)).cloned().unwrap_or_default();
        println!("KNOWN-FINDING: property={} {} [{}] (observed {} times)", id, what, sig, n);
    }
    if unlisted > 0 {
        let mut hist: BTreeMap<String, u64> = BTreeMap::new();
        for v in sum.out.violations.iter().filter(|v| v.known_sig.is_none()) {
            *hist.entry(v.clause.clone()).or_insert(0) += 1;
        }
        println!("  clauses fired: {}", hist.iter().map(|(k, n)| format!("{}={}", k, n)).collect::<Vec<_>>().join(" "));
        let path = match &sum.first_violation {
            Some((idx, v, log, cfg)) => {
                println!("  clause={} :: {}", v.clause, v.msg);
                write_replay(id, tier, seed, *idx, cfg, &v.clause, &v.msg, log)
            }
            None => {
                let m = first_unlisted_known_sig.unwrap_or_default();
                println!("  unlisted finding signature :: {}", m);
                write_replay(id, tier, seed, 0, "", "unlisted_known_signature", &m, &[])
            }
        };
        println!("VIOLATION property={} replay={}", id, path);
        return 1;
    }
    if !inconclusive.is_empty() {
        for r in inconclusive.iter() {
            println!("INCONCLUSIVE property={} reason={}", id, r);
        }
        return 2;
    }
    0
}
