//! Quiescent-point observation of a world through the contracts' public query entry points
//! (plus the chain model's own bank / staking state and, for C02, the hub's raw stored State).

use crate::chain::*;
use crate::setup::*;
use basset::hub as h;
use cosmwasm_std::{Decimal, Uint128};
use cw20::{AllAccountsResponse, BalanceResponse, Cw20QueryMsg, TokenInfoResponse};
use std::collections::{BTreeMap, BTreeSet};

#[derive(Clone, Debug, PartialEq)]
pub struct TokSnap {
    pub supply: u128,
    pub balances: BTreeMap<String, u128>,
    /// accounts as enumerated by AllAccounts (paged)
    pub enumerated: Vec<String>,
}

#[derive(Clone, Debug, PartialEq)]
pub struct Hist {
    pub batch_id: u64,
    pub time: u64,
    pub bsei_amount: u128,
    pub bsei_applied: u128,
    pub bsei_withdraw: u128,
    pub stsei_amount: u128,
    pub stsei_applied: u128,
    pub stsei_withdraw: u128,
    pub released: bool,
}

#[derive(Clone, Debug, PartialEq)]
pub struct HolderSnap {
    pub balance: u128,
    pub index: u128,
    pub pending: u128,
    pub accrued_query: u128,
}

#[derive(Clone, Debug)]
pub struct Snap {
    pub time: u64,
    pub height: u64,
    // hub, as reported by queries (State applies unrecognised slashing on read)
    pub rb: u128,
    pub rs: u128,
    pub pool_b: u128,
    pub pool_s: u128,
    pub prev_hub_balance: u128,
    pub last_unbonded_time: u64,
    pub last_processed_batch: u64,
    pub last_index_modification: u64,
    // hub raw stored state
    pub raw_pool_b: u128,
    pub raw_pool_s: u128,
    pub raw_rb: u128,
    pub raw_rs: u128,
    pub params: h::Parameters,
    pub batch_id: u64,
    pub req_b: u128,
    pub req_s: u128,
    pub history: Vec<Hist>,
    /// the unbond history decoded from the hub's raw storage
    pub raw_history: Option<Vec<Hist>>,
    /// single AllHistory pages asked with arbitrary (start_from, limit)
    pub history_probes: Vec<(Option<u64>, Option<u32>, Vec<Hist>)>,
    pub requests: BTreeMap<String, Vec<(u64, u128, u128)>>,
    /// the same wait list decoded from the hub's raw storage (all addresses, not only the known ones)
    pub raw_requests: Option<BTreeMap<String, Vec<(u64, u128, u128)>>>,
    pub bsei: TokSnap,
    pub stsei: TokSnap,
    pub hub_bank: u128,
    pub delegations: BTreeMap<String, u128>,
    pub total_delegated: u128,
    pub registry: Vec<(String, u128)>,
    /// validator addresses decoded from the registry's raw storage (None: layout not recognised)
    pub raw_registry: Option<Vec<String>>,
    // reward contract
    pub global_index: u128,
    pub reward_total_balance: u128,
    pub prev_reward_balance: u128,
    pub reward_bank: u128,
    pub holders: BTreeMap<String, HolderSnap>,
    pub holders_enumerated: Vec<String>,
    pub bank: BTreeMap<(String, String), u128>,
    pub pending_rewards: BTreeMap<String, u128>,
    pub query_errors: Vec<String>,
}

pub fn at(d: Decimal) -> u128 {
    d.atomics().u128()
}

fn tok_snap(w: &World, tok: &str, known: &BTreeSet<String>, errs: &mut Vec<String>) -> TokSnap {
    let supply = match w.q::<TokenInfoResponse, _>(tok, &Cw20QueryMsg::TokenInfo {}) {
        Ok(t) => t.total_supply.u128(),
        Err(e) => {
            errs.push(format!("{} TokenInfo: {}", tok, e));
            0
        }
    };
    let mut enumerated = vec![];
    let mut start: Option<String> = None;
    loop {
        match w.q::<AllAccountsResponse, _>(tok, &Cw20QueryMsg::AllAccounts { start_after: start.clone(), limit: Some(ENUM_PAGE) }) {
            Ok(r) => {
                if r.accounts.is_empty() {
                    break;
                }
                // walk until a page brings nothing new: a server-side page cap below ENUM_PAGE and an inclusive
                // reading of `start_after` are both the contract's business, not this observer's
                start = r.accounts.last().cloned();
                let fresh: Vec<String> = r.accounts.into_iter().filter(|a| !enumerated.contains(a)).collect();
                if fresh.is_empty() || enumerated.len() > 10_000 {
                    break;
                }
                enumerated.extend(fresh);
            }
            Err(e) => {
                errs.push(format!("{} AllAccounts: {}", tok, e));
                break;
            }
        }
    }
    let mut addrs: BTreeSet<String> = known.clone();
    addrs.extend(enumerated.iter().cloned());
    let mut balances = BTreeMap::new();
    for a in addrs {
        match w.q::<BalanceResponse, _>(tok, &Cw20QueryMsg::Balance { address: a.clone() }) {
            Ok(b) => {
                balances.insert(a, b.balance.u128());
            }
            // an address the token does not list has no record: how the token answers for it is not judged
            Err(e) => {
                if enumerated.contains(&a) {
                    errs.push(format!("{} Balance {}: {}", tok, a, e))
                }
            }
        }
    }
    TokSnap { supply, balances, enumerated }
}

pub fn known_addresses(w: &World) -> BTreeSet<String> {
    let mut s: BTreeSet<String> = USERS.iter().map(|x| x.to_string()).collect();
    for c in [HUB, REWARD, DISPATCHER, REGISTRY, BSEI, STSEI, SWAP, ORACLE, DUMMY, OWNER, KEEPER, UPDATER, STRANGER] {
        s.insert(c.to_string());
    }
    for k in w.kinds.keys() {
        s.insert(k.clone());
    }
    s
}

/// small pages on purpose: pagination of AllHistory is exercised at every snapshot (C07 compares the paged answer
/// with the raw storage)
pub const HISTORY_PAGE: u32 = 8;
/// page size for AllAccounts / Holders enumerations (small, so that `start_after` paging is exercised constantly)
pub const ENUM_PAGE: u32 = 7;

fn to_hist(x: &h::UnbondHistoryResponse) -> Hist {
    Hist {
        batch_id: x.batch_id,
        time: x.time,
        bsei_amount: x.bsei_amount.u128(),
        bsei_applied: at(x.bsei_applied_exchange_rate),
        bsei_withdraw: at(x.bsei_withdraw_rate),
        stsei_amount: x.stsei_amount.u128(),
        stsei_applied: at(x.stsei_applied_exchange_rate),
        stsei_withdraw: at(x.stsei_withdraw_rate),
        released: x.released,
    }
}

pub fn all_history(w: &World, errs: &mut Vec<String>) -> Vec<Hist> {
    let mut out: Vec<Hist> = vec![];
    let mut start: Option<u64> = None;
    loop {
        match w.q::<h::AllHistoryResponse, _>(HUB, &serde_json::json!({"all_history": {"start_from": start, "limit": HISTORY_PAGE}})) {
            Ok(r) => {
                // until a page brings nothing new (page caps and an inclusive `start_from` are tolerated)
                let fresh: Vec<Hist> = r.history.iter().map(to_hist).filter(|h| !out.iter().any(|o: &Hist| o.batch_id == h.batch_id)).collect();
                if fresh.is_empty() || out.len() > 100_000 {
                    break;
                }
                out.extend(fresh);
                start = out.last().map(|x| x.batch_id);
            }
            Err(e) => {
                errs.push(format!("hub AllHistory: {}", e));
                break;
            }
        }
    }
    // in which order a page lists its entries is not fixed by any property
    out.sort_by_key(|h| h.batch_id);
    out
}

/// Arbitrary single pages of AllHistory (C07 judges each against the stored history): always the "from the very
/// start" call `start_from: Some(0)`, plus one page whose start and limit vary with the state.
pub fn history_probes(w: &World, n_hist: usize, errs: &mut Vec<String>) -> Vec<(Option<u64>, Option<u32>, Vec<Hist>)> {
    let mut x = (w.time ^ ((n_hist as u64) << 7) ^ (w.height << 13)).wrapping_mul(0x9E37_79B9_7F4A_7C15);
    let mut next = |m: u64| {
        x ^= x >> 29;
        x = x.wrapping_mul(0xBF58_476D_1CE4_E5B9);
        x ^= x >> 32;
        x % m
    };
    let limits = [None, Some(1u32), Some(2), Some(3), Some(5), Some(100), Some(1000)];
    let mut asks: Vec<(Option<u64>, Option<u32>)> = vec![(Some(0), limits[next(7) as usize])];
    let s = match next(4) {
        0 => None,
        _ => Some(next(n_hist as u64 + 3)),
    };
    asks.push((s, limits[next(7) as usize]));
    let mut out = vec![];
    for (s, l) in asks {
        match w.q::<h::AllHistoryResponse, _>(HUB, &serde_json::json!({"all_history": {"start_from": s, "limit": l}})) {
            Ok(r) => out.push((s, l, r.history.iter().map(to_hist).collect())),
            // a hub may refuse an odd page request (an oversized limit, a start beyond the end): only answers are judged
            Err(_) => {}
        }
    }
    out
}

/// Decode the hub's v2 wait list straight from storage: keys are
/// len-prefixed("v2_wait") ++ len-prefixed(json(address)) ++ json(batch id), values json {bsei_amount, stsei_amount}.
/// `None` when an entry under the prefix does not decode (a layout this decoder does not know: nothing is judged then).
pub fn raw_wait_list(w: &World) -> Option<BTreeMap<String, Vec<(u64, u128, u128)>>> {
    let mut out: BTreeMap<String, Vec<(u64, u128, u128)>> = BTreeMap::new();
    let prefix: &[u8] = &[0, 7, b'v', b'2', b'_', b'w', b'a', b'i', b't'];
    if let Some(st) = w.stores.get(HUB) {
        for (k, v) in st.0.iter() {
            if !k.starts_with(prefix) || k.len() < prefix.len() + 2 {
                continue;
            }
            let rest = &k[prefix.len()..];
            let l = ((rest[0] as usize) << 8) | rest[1] as usize;
            if rest.len() < 2 + l {
                return None;
            }
            let addr: String = match serde_json::from_slice(&rest[2..2 + l]) {
                Ok(a) => a,
                Err(_) => return None,
            };
            let batch: u64 = match std::str::from_utf8(&rest[2 + l..]).ok().and_then(|x| x.parse().ok()) {
                Some(b) => b,
                None => return None,
            };
            let val: serde_json::Value = match serde_json::from_slice(v) {
                Ok(x) => x,
                Err(_) => return None,
            };
            if val.get("bsei_amount").is_none() || val.get("stsei_amount").is_none() {
                return None;
            }
            let g = |f: &str| val.get(f).and_then(|x| x.as_str()).and_then(|x| x.parse::<u128>().ok()).unwrap_or(0);
            out.entry(addr).or_default().push((batch, g("bsei_amount"), g("stsei_amount")));
        }
    }
    for v in out.values_mut() {
        v.sort();
    }
    Some(out)
}

/// Decode the hub's unbond history straight from storage: keys are len-prefixed("history_map") ++ big-endian batch id.
pub fn raw_history(w: &World) -> Option<Vec<Hist>> {
    use std::str::FromStr;
    let mut out = vec![];
    let mut prefix: Vec<u8> = vec![0, 11];
    prefix.extend_from_slice(b"history_map");
    if let Some(st) = w.stores.get(HUB) {
        for (k, v) in st.0.iter() {
            if !k.starts_with(&prefix) || k.len() != prefix.len() + 8 {
                continue;
            }
            let val: serde_json::Value = match serde_json::from_slice(v) {
                Ok(x) => x,
                Err(_) => return None,
            };
            for f in ["batch_id", "time", "bsei_amount", "bsei_applied_exchange_rate", "bsei_withdraw_rate", "stsei_amount", "stsei_applied_exchange_rate", "stsei_withdraw_rate", "released"] {
                if val.get(f).is_none() {
                    return None;
                }
            }
            let n = |f: &str| val.get(f).and_then(|x| x.as_str()).and_then(|x| x.parse::<u128>().ok()).unwrap_or(0);
            let d = |f: &str| val.get(f).and_then(|x| x.as_str()).and_then(|x| Decimal::from_str(x).ok()).map(at).unwrap_or(0);
            out.push(Hist {
                batch_id: val.get("batch_id").and_then(|x| x.as_u64()).unwrap_or(0),
                time: val.get("time").and_then(|x| x.as_u64()).unwrap_or(0),
                bsei_amount: n("bsei_amount"),
                bsei_applied: d("bsei_applied_exchange_rate"),
                bsei_withdraw: d("bsei_withdraw_rate"),
                stsei_amount: n("stsei_amount"),
                stsei_applied: d("stsei_applied_exchange_rate"),
                stsei_withdraw: d("stsei_withdraw_rate"),
                released: val.get("released").and_then(|x| x.as_bool()).unwrap_or(false),
            });
        }
    }
    out.sort_by_key(|h| h.batch_id);
    Some(out)
}

/// Decode the registry's validator map straight from storage: keys are len-prefixed("validators_registry") ++ address bytes,
/// values json {address}.
pub fn raw_registry(w: &World) -> Option<Vec<String>> {
    let mut prefix: Vec<u8> = vec![0, 19];
    prefix.extend_from_slice(b"validators_registry");
    let mut out = vec![];
    if let Some(st) = w.stores.get(REGISTRY) {
        for (k, v) in st.0.iter() {
            if !k.starts_with(&prefix) {
                continue;
            }
            let val: serde_json::Value = serde_json::from_slice(v).ok()?;
            out.push(val.get("address")?.as_str()?.to_string());
        }
    }
    out.sort();
    Some(out)
}

/// (bSei pool, stSei pool, bSei rate, stSei rate) as stored by the hub, or None when the item is not where / what this
/// decoder expects.
pub fn raw_hub_state(w: &World) -> Option<(u128, u128, u128, u128)> {
    use std::str::FromStr;
    let st = w.stores.get(HUB)?;
    let v: serde_json::Value = serde_json::from_slice(st.0.get(&b"\x00\x05state"[..])?).ok()?;
    let n = |f: &str| v.get(f)?.as_str()?.parse::<u128>().ok();
    let d = |f: &str| Decimal::from_str(v.get(f)?.as_str()?).ok().map(at);
    Some((n("total_bond_bsei_amount")?, n("total_bond_stsei_amount")?, d("bsei_exchange_rate")?, d("stsei_exchange_rate")?))
}

pub fn take(w: &World) -> Snap {
    let mut errs = vec![];
    let known = known_addresses(w);
    let st: h::StateResponse = w.q(HUB, &h::QueryMsg::State {}).unwrap_or_else(|e| {
        errs.push(format!("hub State: {}", e));
        crate::setup::mk(serde_json::json!({
            "bsei_exchange_rate": "1", "stsei_exchange_rate": "1", "total_bond_bsei_amount": "0", "total_bond_stsei_amount": "0",
            "last_index_modification": 0, "prev_hub_balance": "0", "last_unbonded_time": 0, "last_processed_batch": 0,
            "total_bond_amount": "0", "exchange_rate": "1",
        }))
    });
    // the hub's stored books, decoded from raw storage (item "\0\x05state", JSON) rather than through the hub's own
    // `STATE` constant, so that renaming or re-typing private items does not break the observer; when the layout is
    // not recognised the stored books are taken to be what the query reports
    let raw = raw_hub_state(w).unwrap_or((st.total_bond_bsei_amount.u128(), st.total_bond_stsei_amount.u128(), at(st.bsei_exchange_rate), at(st.stsei_exchange_rate)));
    let params: h::Parameters = w.q(HUB, &h::QueryMsg::Parameters {}).unwrap_or_else(|e| {
        errs.push(format!("hub Parameters: {}", e));
        crate::setup::mk(serde_json::json!({
            "epoch_period": 1, "underlying_coin_denom": USEI, "unbonding_period": 1, "peg_recovery_fee": "0", "er_threshold": "1",
            "reward_denom": KUSD, "paused": null,
        }))
    });
    let (batch_id, req_b, req_s) = match w.q::<h::CurrentBatchResponse, _>(HUB, &h::QueryMsg::CurrentBatch {}) {
        Ok(b) => (b.id, b.requested_bsei_with_fee.u128(), b.requested_stsei.u128()),
        Err(e) => {
            errs.push(format!("hub CurrentBatch: {}", e));
            (0, 0, 0)
        }
    };
    let history = all_history(w, &mut errs);
    let history_probes = history_probes(w, history.len(), &mut errs);
    let mut requests = BTreeMap::new();
    let mut failed_requests: Vec<(String, String)> = vec![];
    for a in known.iter() {
        match w.q::<h::UnbondRequestsResponse, _>(HUB, &serde_json::json!({"unbond_requests": {"address": a.clone()}})) {
            Ok(r) => {
                if !r.requests.is_empty() {
                    requests.insert(a.clone(), r.requests.iter().map(|(b, x, y)| (*b, x.u128(), y.u128())).collect());
                }
            }
            Err(e) => failed_requests.push((a.clone(), e.to_string())),
        }
    }
    let raw_requests = raw_wait_list(w);
    // an address without a stored claim has no record: an error instead of an empty answer is not judged (when the
    // storage layout is not recognised every failure counts)
    for (a, e) in failed_requests {
        let has_record = raw_requests.as_ref().map(|r| r.contains_key(&a)).unwrap_or(true);
        if has_record {
            errs.push(format!("hub UnbondRequests {}: {}", a, e));
        }
    }
    let raw_history = raw_history(w);
    let bsei = tok_snap(w, BSEI, &known, &mut errs);
    let stsei = tok_snap(w, STSEI, &known, &mut errs);
    let delegations: BTreeMap<String, u128> = w.delegations_of(HUB).into_iter().collect();
    let total_delegated = delegations.values().sum();
    let registry = match w.q::<Vec<basset_sei_validators_registry::registry::ValidatorResponse>, _>(
        REGISTRY,
        &basset_sei_validators_registry::msg::QueryMsg::GetValidatorsForDelegation {},
    ) {
        Ok(v) => v.into_iter().map(|x| (x.address, x.total_delegated.u128())).collect(),
        Err(e) => {
            errs.push(format!("registry validators: {}", e));
            vec![]
        }
    };
    let (global_index, reward_total_balance, prev_reward_balance) =
        match w.q::<basset::reward::StateResponse, _>(REWARD, &basset::reward::QueryMsg::State {}) {
            Ok(s) => (at(s.global_index), s.total_balance.u128(), s.prev_reward_balance.u128()),
            Err(e) => {
                errs.push(format!("reward State: {}", e));
                (0, 0, 0)
            }
        };
    let mut holders_enumerated = vec![];
    let mut start: Option<String> = None;
    loop {
        match w.q::<basset::reward::HoldersResponse, _>(REWARD, &serde_json::json!({"holders": {"start_after": start.clone(), "limit": ENUM_PAGE}})) {
            Ok(r) => {
                let n = r.holders.len();
                if n == 0 {
                    break;
                }
                start = r.holders.last().map(|x| x.address.clone());
                let fresh: Vec<String> = r.holders.into_iter().map(|x| x.address).filter(|a| !holders_enumerated.contains(a)).collect();
                if fresh.is_empty() || holders_enumerated.len() > 10_000 {
                    break;
                }
                holders_enumerated.extend(fresh);
            }
            Err(e) => {
                errs.push(format!("reward Holders: {}", e));
                break;
            }
        }
    }
    let mut haddrs: BTreeSet<String> = known.clone();
    haddrs.extend(holders_enumerated.iter().cloned());
    haddrs.extend(bsei.enumerated.iter().cloned());
    let mut holders = BTreeMap::new();
    for a in haddrs {
        let hr = w.q::<basset::reward::HolderResponse, _>(REWARD, &serde_json::json!({"holder": {"address": a.clone()}}));
        let ar = w.q::<basset::reward::AccruedRewardsResponse, _>(REWARD, &serde_json::json!({"accrued_rewards": {"address": a.clone()}}));
        match (hr, ar) {
            (Ok(hh), Ok(acc)) => {
                holders.insert(
                    a,
                    HolderSnap { balance: hh.balance.u128(), index: at(hh.index), pending: at(hh.pending_rewards), accrued_query: acc.rewards.u128() },
                );
            }
            // an address that neither holds bSei nor is listed by the reward contract has no record there: how the
            // contract answers for it (zeros or an error) is not judged
            (Err(e), _) | (_, Err(e)) => {
                if holders_enumerated.contains(&a) || bsei.balances.get(&a).cloned().unwrap_or(0) > 0 {
                    errs.push(format!("reward Holder {}: {}", a, e))
                }
            }
        }
    }
    Snap {
        time: w.time,
        height: w.height,
        rb: at(st.bsei_exchange_rate),
        rs: at(st.stsei_exchange_rate),
        pool_b: st.total_bond_bsei_amount.u128(),
        pool_s: st.total_bond_stsei_amount.u128(),
        prev_hub_balance: st.prev_hub_balance.u128(),
        last_unbonded_time: st.last_unbonded_time,
        last_processed_batch: st.last_processed_batch,
        last_index_modification: st.last_index_modification,
        raw_pool_b: raw.0,
        raw_pool_s: raw.1,
        raw_rb: raw.2,
        raw_rs: raw.3,
        params,
        batch_id,
        req_b,
        req_s,
        history,
        raw_history,
        history_probes,
        requests,
        raw_requests,
        raw_registry: raw_registry(w),
        bsei,
        stsei,
        hub_bank: w.bal(HUB, USEI),
        delegations,
        total_delegated,
        registry,
        global_index,
        reward_total_balance,
        prev_reward_balance,
        reward_bank: w.bal(REWARD, KUSD),
        holders,
        holders_enumerated,
        bank: w.bank.clone(),
        pending_rewards: w.pending_rewards(HUB),
        query_errors: errs,
    }
}

impl Snap {
    pub fn bal(&self, a: &str, d: &str) -> u128 {
        *self.bank.get(&(a.to_string(), d.to_string())).unwrap_or(&0)
    }
    pub fn hist(&self, id: u64) -> Option<&Hist> {
        self.history.iter().find(|x| x.batch_id == id)
    }
    pub fn tok(&self, t: crate::ops::Tok) -> &TokSnap {
        match t {
            crate::ops::Tok::B => &self.bsei,
            crate::ops::Tok::St => &self.stsei,
        }
    }
    pub fn claims_b(&self) -> u128 {
        self.bsei.supply + self.req_b
    }
    pub fn claims_s(&self) -> u128 {
        self.stsei.supply + self.req_s
    }
}

/// Digest of what the public queries and the chain show about claims, pools, batches, balances and stake - not of raw
/// storage, so that a contract is free to keep extra records (an audit log, a remembered quote); the hub's pause flag
/// is left out (`None` and `Some(false)` both mean "not paused"). Used where two executions must have "the same result"
/// (C09 paired fault runs, C11 pause twins).
pub fn sem_digest(w: &World) -> u64 {
    use std::hash::{Hash, Hasher};
    let s = take(w);
    let holders: Vec<(&String, u128, u128, u128)> = s.holders.iter().map(|(a, x)| (a, x.balance, x.index, x.pending)).collect();
    let text = format!(
        "{:?}",
        (
            (s.pool_b, s.pool_s, s.rb, s.rs, s.prev_hub_balance, s.last_unbonded_time, s.last_processed_batch),
            (s.batch_id, s.req_b, s.req_s, &s.history, &s.requests),
            (s.bsei.supply, &s.bsei.balances, s.stsei.supply, &s.stsei.balances),
            (&s.bank, &s.delegations, &s.registry, &s.pending_rewards),
            (s.global_index, s.reward_total_balance, s.prev_reward_balance, holders),
            (s.params.epoch_period, s.params.unbonding_period, s.params.peg_recovery_fee, s.params.er_threshold, &s.params.reward_denom, &s.params.underlying_coin_denom),
        )
    );
    let mut h = std::collections::hash_map::DefaultHasher::new();
    text.hash(&mut h);
    (w.unbonding.len() as u64, w.locks.len() as u64).hash(&mut h);
    h.finish()
}
