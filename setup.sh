#!/bin/sh
# offline build of the harness (release), warms the target directory
cd "$(dirname "$0")/harness" || exit 1
export CARGO_NET_OFFLINE=true
RUSTFLAGS="--cfg krp_verif" cargo build --release --offline 2>&1 | tail -3
test -x target/release/krpmon
